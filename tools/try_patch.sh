#!/bin/bash
# tools/try_patch.sh <patch.diff> <ID> [<ID> ...]   -- apply a patch to /repo, run the quick checks, always revert.
# Never leaves /repo modified.  Evidence / replay files written while the patch is applied are restored afterwards.
patch="$1"; shift
cd /verif
if ! git -C /repo diff --quiet; then echo "/repo has uncommitted changes; refusing"; exit 3; fi
git -C /repo apply "$patch" || { echo "patch does not apply"; exit 3; }
trap 'git -C /repo checkout -- . ; git -C /verif checkout -- evidence 2>/dev/null; git -C /verif clean -fdq replays evidence' EXIT
tier="${TIER:-quick}"
for id in "$@"; do
  out=$(./check "$id" --tier "$tier" 2>&1); rc=$?
  echo "== $id exit=$rc :: $(echo "$out" | grep -m1 VIOLATION) :: $(echo "$out" | tail -1)"
  echo "$out" | grep -A1 -m2 VIOLATION | grep check= | head -2
done
