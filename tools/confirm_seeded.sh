#!/bin/bash
# tools/confirm_seeded.sh <name> : re-confirm /verif/seeded/<name> against /repo's current HEAD in a scratch worktree (removed afterwards)
n="$1"; d=/verif/seeded/$n; wt=$(mktemp -d /tmp/confwt-XXXXXX); rmdir $wt
git -C /repo worktree add -q --detach $wt HEAD || exit 9
cd $wt
/venv/bin/python $d/demo.py >/dev/null 2>&1; without=$?
git apply $d/patch.diff || { echo "$n: patch does not apply"; cd /; git -C /repo worktree remove --force $wt; exit 1; }
/venv/bin/python $d/demo.py >/dev/null 2>&1; with=$?
tests=$(/venv/bin/python -m pytest -q -p no:cacheprovider --timeout=900 --continue-on-collection-errors 2>&1 | tail -1)
cd /; git -C /repo worktree remove --force $wt
echo "$n: demo_without=$without demo_with=$with tests=$tests"
