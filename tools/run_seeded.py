#!/usr/bin/env python3
"""Mutant campaign: run quick checks against every seeded change in /verif/seeded/*/patch.diff.

Each change is applied to its OWN scratch worktree of /repo under /tmp (never to /repo), the check runs with PYTHONPATH /
MCX_REPO pointing at that worktree and MCX_OUT at a scratch output directory, the produced replay file is re-executed with
`--replay`, and the worktree is removed.  Results: /verif/seeded/RESULTS.json and RESULTS.md.

usage: tools/run_seeded.py [--all-checks] [--tier quick] [name ...]
"""
import concurrent.futures as cf
import json
import os
import re
import shutil
import subprocess
import sys
import tempfile

VERIF = os.path.dirname(os.path.dirname(os.path.abspath(__file__)))
SEEDED = os.path.join(VERIF, "seeded")
ALL = ["C%02d" % i for i in range(1, 19)]


def sh(cmd, **kw):
    return subprocess.run(cmd, shell=True, capture_output=True, text=True, **kw)


def one(name, checks, tier):
    d = os.path.join(SEEDED, name)
    wt = tempfile.mkdtemp(prefix=f"mcxwt-{name}-", dir="/tmp")
    os.rmdir(wt)
    out = tempfile.mkdtemp(prefix=f"mcxout-{name}-", dir="/tmp")
    res = dict(name=name, checks={})
    try:
        r = sh(f"git -C /repo worktree add -q --detach {wt} HEAD && git -C {wt} apply {d}/patch.diff")
        if r.returncode:
            res["error"] = "patch does not apply: " + r.stderr[-200:]
            return res
        env = dict(os.environ, PYTHONPATH=wt, MCX_REPO=wt, MCX_OUT=out, MCX_WORKERS="4", PYTHONDONTWRITEBYTECODE="1")
        for c in checks:
            r = sh(f"./check {c} --tier {tier}", cwd=VERIF, env=env)
            m = re.search(r"VIOLATION property=(\S+) replay=(\S+)", r.stdout)
            sigs = re.findall(r"check=(\S+) sig=", r.stdout)
            entry = dict(exit=r.returncode, detected=r.returncode == 1, checks_failed=sorted(set(sigs))[:6], summary=r.stdout.strip().splitlines()[-1][-160:] if r.stdout.strip() else r.stderr[-200:])
            if m:
                rr = sh(f"./check {c} --replay {m.group(2)}", cwd=VERIF, env=env)
                entry["replay_reproduces"] = rr.returncode == 1
                # the same replay must NOT reproduce on the unchanged library
                rr2 = sh(f"./check {c} --replay {m.group(2)}", cwd=VERIF, env=dict(os.environ, MCX_OUT=out))
                entry["replay_silent_on_unchanged_tree"] = rr2.returncode == 0
            res["checks"][c] = entry
    finally:
        sh(f"git -C /repo worktree remove --force {wt}")
        shutil.rmtree(out, ignore_errors=True)
        shutil.rmtree(wt, ignore_errors=True)
    return res


RELATED = {
    "trie/hexary.py": ["C01", "C02", "C03", "C04", "C05", "C06", "C07", "C08", "C09", "C10", "C18"],
    "trie/utils/db.py": ["C17", "C04", "C05", "C06", "C01"],
    "trie/fog.py": ["C11", "C09", "C10", "C18"],
    "trie/iter.py": ["C10"],
    "trie/exceptions.py": ["C08", "C09", "C07", "C10"],
    "trie/utils/nodes.py": ["C16", "C08", "C09", "C10", "C12", "C13", "C01", "C02"],
    "trie/utils/nibbles.py": ["C16", "C01", "C02", "C11"],
    "trie/binary.py": ["C12", "C13", "C18"],
    "trie/branches.py": ["C13", "C18"],
    "trie/smt.py": ["C14", "C15", "C18"],
    "trie/utils/binaries.py": ["C16", "C12", "C13"],
    "trie/typing.py": ["C18", "C11", "C08"],
    "trie/validation.py": ["C18", "C01", "C12", "C14"],
}


def related(name):
    out = []
    for line in open(os.path.join(SEEDED, name, "patch.diff")):
        if line.startswith("+++ b/"):
            for c in RELATED.get(line[6:].strip(), ALL):
                if c not in out:
                    out.append(c)
    return sorted(out)


def main():
    args = sys.argv[1:]
    allc = "--all-checks" in args
    rel = "--related" in args
    tier = "quick"
    if "--tier" in args:
        tier = args[args.index("--tier") + 1]
    names = [a for a in args if not a.startswith("--") and a != tier]
    if not names:
        names = sorted(n for n in os.listdir(SEEDED) if os.path.exists(os.path.join(SEEDED, n, "patch.diff")))
    jobs = []
    for n in names:
        meta = json.load(open(os.path.join(SEEDED, n, "meta.json")))
        checks = ALL if allc else (related(n) if rel else (meta.get("run_checks") or [meta["property"]]))
        jobs.append((n, checks))
    results = {}
    path = os.path.join(SEEDED, "RESULTS.json")
    if os.path.exists(path) and (len(sys.argv) > 1):
        results = json.load(open(path))
    with cf.ThreadPoolExecutor(max_workers=6) as ex:
        for r in ex.map(lambda j: one(j[0], j[1], tier), jobs):
            prev = results.get(r["name"], {}).get("checks", {})
            prev.update(r.get("checks", {}))
            r["checks"] = prev
            results[r["name"]] = r
            print(r["name"], {c: ("DETECTED" if e["detected"] else f"missed(exit {e['exit']})") for c, e in r["checks"].items()}, r.get("error", ""), flush=True)
    json.dump(results, open(path, "w"), indent=1, sort_keys=True)
    with open(os.path.join(SEEDED, "RESULTS.md"), "w") as f:
        f.write("| seeded change | breaks | detected by (quick tier) | replay reproduces / silent on unchanged tree | failing checks |\n|---|---|---|---|---|\n")
        for n in sorted(results):
            r = results[n]
            meta = json.load(open(os.path.join(SEEDED, n, "meta.json")))
            det = [c for c, e in r["checks"].items() if e["detected"]]
            miss = [c for c, e in r["checks"].items() if not e["detected"] and c == meta["property"]]
            rep = "; ".join(f"{c}: {e.get('replay_reproduces')}/{e.get('replay_silent_on_unchanged_tree')}" for c, e in r["checks"].items() if e["detected"])
            fails = "; ".join(f"{c}: {', '.join(e['checks_failed'][:3])}" for c, e in r["checks"].items() if e["detected"])
            f.write(f"| {n} | {meta['property']} | {', '.join(det) or '-'}{' (MISSED by ' + ','.join(miss) + ')' if miss else ''} | {rep} | {fails} |\n")


if __name__ == "__main__":
    main()
