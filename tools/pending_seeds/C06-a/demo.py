"""
C06-a demo: nested squash_changes batches on a pruning trie.  The outer batch
removes a key (its hashed nodes are pruned inside the batch); a batch opened on
the outer batch trie then puts the same key/value back (the same nodes are
re-created).  After everything commits, the database must hold exactly the nodes
reachable from the root, counts must be true and every key must be readable.
"""
import os
import sys

sys.path.insert(0, os.getcwd())  # run from the worktree root

import trie
from trie import HexaryTrie


def check(t, db, expected, label):
    problems = []
    live = None
    try:
        live = {k: v for k, v in t.regenerate_ref_count().items() if v}
    except KeyError as exc:
        problems.append(
            "%s: node %s reachable from the root is missing from the database"
            % (label, exc.args[0].hex()[:16])
        )
    if live is not None:
        missing = set(live) - set(db)
        leftover = set(db) - set(live)
        if missing or leftover:
            problems.append(
                "%s: db keys != live nodes (missing %d, leftover %d)"
                % (label, len(missing), len(leftover))
            )
        reported = {k: v for k, v in t.ref_count.items() if v}
        if reported != live:
            problems.append("%s: reported ref counts differ from the true ones" % label)
    for k, v in expected.items():
        try:
            got = t.get(k)
        except Exception as exc:
            problems.append("%s: get(%r) raised %s" % (label, k, type(exc).__name__))
        else:
            if got != v:
                problems.append("%s: get(%r) = %r, expected %r" % (label, k, got, v))
    return problems


def main():
    print("using", trie.__file__)
    db = {}
    t = HexaryTrie(db, prune=True)
    expected = {}
    for i in range(6):
        k = bytes([0x10 * i, i]) + b"key-material-%d" % i
        expected[k] = b"value-%d-" % i + b"x" * 40
        t.set(k, expected[k])
    problems = check(t, db, expected, "after initial sets")

    victim = sorted(expected)[2]

    # sanity: the same thing in ONE batch
    with t.squash_changes() as batch:
        batch.delete(victim)
        batch.set(victim, expected[victim])
    problems += check(t, db, expected, "after single-level delete+re-set batch")

    # nested: delete in the outer batch, restore in a batch opened on the batch trie
    if not problems:
        try:
            with t.squash_changes() as outer:
                outer.delete(victim)
                with outer.squash_changes() as inner:
                    inner.set(victim, expected[victim])
                for k, v in expected.items():
                    if outer.get(k) != v:
                        problems.append("inside outer batch: get(%r) wrong" % k)
        except Exception as exc:
            problems.append("nested batch raised %s: %s" % (type(exc).__name__, exc))
        problems += check(t, db, expected, "after nested delete / re-set batches")

    if problems:
        for p in problems:
            print("FAIL:", p)
        sys.exit(1)
    print("ok")
    sys.exit(0)


main()
