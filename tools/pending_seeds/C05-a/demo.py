"""C05-a demo: a delete inside a batch collapses a branch into a copy of a live node."""
import os
import sys

sys.path.insert(0, os.getcwd())  # run from the worktree root: import its trie/

import trie
from trie import HexaryTrie

print("using", trie.__file__)


def main():
    same = b"S" * 40
    other = b"O" * 40
    k1 = b"\x11\x11"  # root slot 1: leaf (111 -> same)
    k2 = b"\x21\x11"  # root slot 2: branch {1: leaf(11 -> same), 5: leaf(55 -> other)}
    k3 = b"\x25\x55"
    k4 = b"\x41\x11"  # keeps the root a branch

    problems = []
    for outer_prune in (False, True):
        for preexisting in (False, True):
            label = "prune=%s preexisting=%s" % (outer_prune, preexisting)
            db = {}
            t = HexaryTrie(db, prune=outer_prune)
            if preexisting:
                t[k4] = other
            with t.squash_changes() as batch:
                batch[k4] = other
                batch[k1] = same
                batch[k2] = same
                batch[k3] = other
                # removing k3 collapses the slot-2 branch into a leaf that is
                # byte-for-byte the leaf already stored for k1
                del batch[k3]
                # ... and removing k2 drops that second reference again
                del batch[k2]
            expected = {k1: same, k4: other}

            ref = HexaryTrie({})
            for k, v in expected.items():
                ref[k] = v
            if t.root_hash != ref.root_hash:
                problems.append("%s: root is not the canonical root" % label)
            for k, v in expected.items():
                try:
                    got = HexaryTrie(db, t.root_hash).get(k)
                except Exception as exc:
                    problems.append(
                        "%s: reading %r after the batch committed raised %r"
                        % (label, k, exc)
                    )
                else:
                    if got != v:
                        problems.append("%s: key %r has %r" % (label, k, got))

    if problems:
        print("FAIL")
        for p in problems:
            print(" -", p[:260])
        return 1
    print("OK")
    return 0


if __name__ == "__main__":
    sys.exit(main())
