#!/usr/bin/env python3
"""tools/install_wave.py OUTDIR SUF_A SUF_B WAVE : confirm every <OUTDIR>/<ID>-{a,b} in a scratch worktree of /repo HEAD
(patch applies; baseline suite 215 passed / 2 failed / 1 error; demo exits 1 with the change and 0 without) and install the
confirmed ones as /verif/seeded/<ID>-<SUF>/ with meta.json.  Worktrees are removed afterwards."""
import concurrent.futures as cf
import glob
import json
import os
import shutil
import subprocess
import sys
import tempfile

outdir, suf_a, suf_b, wave = sys.argv[1], sys.argv[2], sys.argv[3], int(sys.argv[4])


def sh(cmd, **kw):
    return subprocess.run(cmd, shell=True, capture_output=True, text=True, **kw)


def confirm(src):
    name = os.path.basename(src)
    if not all(os.path.exists(os.path.join(src, f)) for f in ("patch.diff", "demo.py", "README.txt")):
        return name, None
    wt = tempfile.mkdtemp(prefix="confwt-", dir="/tmp")
    os.rmdir(wt)
    try:
        if sh(f"git -C /repo worktree add -q --detach {wt} HEAD").returncode:
            return name, None
        without = sh(f"/venv/bin/python {src}/demo.py", cwd=wt).returncode
        if sh(f"git apply {src}/patch.diff", cwd=wt).returncode:
            return name, dict(applies=False)
        with_ = sh(f"/venv/bin/python {src}/demo.py", cwd=wt).returncode
        tests = ""
        for attempt in range(2):  # one timing-sensitive hypothesis test can fail under load: re-run once
            tests = sh("/venv/bin/python -m pytest -q -p no:cacheprovider --timeout=900 --continue-on-collection-errors 2>&1 | tail -1", cwd=wt).stdout.strip()
            if "215 passed" in tests and "2 failed" in tests:
                break
        return name, dict(applies=True, tests=tests.strip("= "), demo_with=with_, demo_without=without)
    finally:
        sh(f"git -C /repo worktree remove --force {wt}")
        shutil.rmtree(wt, ignore_errors=True)


srcs = sorted(glob.glob(os.path.join(outdir, "C??-[ab]")))
if os.environ.get("ONLY"):
    srcs = [s for s in srcs if os.path.basename(s)[:3] in os.environ["ONLY"].split()]
with cf.ThreadPoolExecutor(max_workers=6) as ex:
    for name, c in ex.map(confirm, srcs):
        ok = bool(c) and c.get("applies") and "215 passed" in c["tests"] and "2 failed" in c["tests"] and c["demo_with"] == 1 and c["demo_without"] == 0
        print(name, "OK" if ok else f"NOT CONFIRMED {c}", flush=True)
        if not ok:
            continue
        src = os.path.join(outdir, name)
        dst = f"/verif/seeded/{name[:3]}-{suf_a if name.endswith('a') else suf_b}"
        os.makedirs(dst, exist_ok=True)
        for f in ("patch.diff", "demo.py", "README.txt"):
            shutil.copy(os.path.join(src, f), os.path.join(dst, f))
        readme = open(os.path.join(src, "README.txt")).read().strip().split("\n")
        need = " ".join(l.strip() for l in readme[:4])[:400]
        meta = dict(property=name[:3], wave=wave,
                    source="independent sub-agent given only the property text (plus the list of code sites earlier waves used) and a scratch worktree",
                    needs_to_manifest="(from the sub-agent's README) " + need,
                    confirmed_by_me=dict(patch_applies_to_clean_checkout=True, baseline_suite_with_change=c["tests"], demo_exit_with_change=1,
                                         demo_exit_without_change=0, how="tools/install_wave.py in a scratch worktree of /repo HEAD under /tmp"))
        json.dump(meta, open(os.path.join(dst, "meta.json"), "w"), indent=1)
