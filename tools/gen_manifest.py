#!/usr/bin/env python3
"""Regenerate MANIFEST.json from the table below (keeps the file valid at all times)."""
import json
import os

ROOT = os.path.dirname(os.path.dirname(os.path.abspath(__file__)))
MC, FE, EX = "model_checking", "fault_enumeration", "exploration"

TABLE = {
    "C01": (MC, "closure BFS to fixpoint over the real HexaryTrie (all histories over the key/value alphabets incl. 32/34/130-byte keys and sentinel values, direct + squash_changes batches, prune on/off); every state probed against a dict model; every pair / triple of consecutive events on ONE live object; live replays; one long fixed-history scale probe",
            "explicit-state model checking of the implementation (closure BFS, dict reference model)"),
    "C02": (MC, "same closure BFS; after every transition root_hash == independent declarative Yellow-Paper root of the model contents, db[root] == canonical root node; threshold values make 31/32/33-byte nodes occur (incl. 55-nibble leaves with one-byte values, 55/56-byte values); chains of 3 operations on one live object; failing commit writes; scale probe",
            "explicit-state model checking of the implementation against a declarative MPT oracle"),
    "C03": (FE, "every reachable trie x every probe key x every enumerated corruption of the proof list (sub-lists, permutations, duplicates, single/pair alterations, cross-trie proofs, foreign roots); outcome must be the true value or BadTrieProof",
            "exhaustive fault enumeration over proof lists on all states of a closure BFS"),
    "C04": (FE, "append-only/content-addressed invariant on every transition of the closure BFS; exact-state depth-bounded search of two handles on one shared db re-reading every historical root; every db write position failing",
            "explicit-state exploration + exhaustive write-fault injection"),
    "C05": (MC, "closure BFS over outer-trie states with commit / abort-at-every-point / abort-by-failing-op / abort by KeyError and by a BaseException / failing-commit-write (plain and KeyError-class) events, batches of length <= 2, nested batches, pairs of events on one live object; abort must restore (root, db, ref counts) exactly; pruning runs carry the C06 invariants; big-batch scale probe",
            "explicit-state model checking with crash-point enumeration"),
    "C06": (MC, "closure BFS over pruning tries incl. committed/aborted batches; in every state db == canonical hashed node set and ref counts == reference-path counts of an independent oracle",
            "explicit-state model checking of the implementation against a declarative node-set oracle"),
    "C07": (FE, "every reachable trie x every subset of absent node bodies (complete up to a stated size) x every call; result equals complete-db result or a truthful Missing* exception; state untouched; retry loop converges",
            "exhaustive fault enumeration (missing-node subsets) on all states of a closure BFS"),
    "C08": (EX, "every reachable trie x every nibble path up to a bound x every start position; traverse / traverse_from compared with node positions computed declaratively from the contents",
            "exhaustive bounded input enumeration over all states of a closure BFS"),
    "C09": (MC, "product system trie x fog x frontier cache x met-set; every walker pick and every placement of up to M mutations explored; terminal states checked for completeness/soundness of what was met",
            "explicit-state model checking of all walk/mutation schedules (mutation-bounded)"),
    "C10": (EX, "every reachable trie: keys/items/values/nodes vs sorted model and canonical pre-order; next(q) for every query key vs strict successor",
            "exhaustive bounded input enumeration over all states of a closure BFS"),
    "C11": (MC, "closure BFS over all fogs reachable by valid and invalid explore / mark_all_complete menus; set model, antichain, immutability, commutation, serialize round-trip, nearest_* contract on a query grid in every state",
            "explicit-state model checking of HexaryTrieFog against a set model"),
    "C12": (MC, "closure BFS to fixpoint over BinaryTrie set/delete/delete_subtrie on fixed and variable length keys; prefix-free dict model with refusal rules; declarative canonical root",
            "explicit-state model checking of the implementation against a declarative binary-trie oracle"),
    "C13": (FE, "every reachable binary trie x every key/prefix x every enumerated branch forgery; witnesses re-read alone in a fresh db",
            "exhaustive fault enumeration over branches on all states of a closure BFS"),
    "C14": (MC, "closure BFS per (key size, default) over SparseMerkleTree set/delete; full-depth Merkle root, sibling lists and returned path hashes from an independent oracle; from_db re-read",
            "explicit-state model checking of the implementation against a declarative sparse-Merkle oracle"),
    "C15": (MC, "product BFS tree x proof for every tracked key; updates differing at every bit position; every truncation length of the hash list",
            "explicit-state model checking of the tree/proof product"),
    "C16": (EX, "every nibble sequence / bit string / byte string up to a bound and every malformed node shape of a finite family against spec-level functions",
            "exhaustive bounded input enumeration"),
    "C17": (MC, "closure BFS over (wrapped contents, buffer, do_deletes, open?) for every initial content; two-dict model; wrapped db logged for writes while open; both exit kinds at every position",
            "explicit-state model checking of ScratchDB against a two-dict model with crash-point enumeration"),
    "C18": (EX, "states of small closure BFSs x full matrix entry point x ill-formed argument; named exception and canonical-state self-loop",
            "exhaustive enumeration of invalid calls over explored states"),
}

NOTES = {
    "C01": "exhaustive over histories only within the key/value alphabet (DESIGN §4); dict-like in-memory db",
    "C02": "trusted: oracle mcx/ref/mpt.py (own RLP/HP, pycryptodome Keccak) validated by known-answer vectors; alphabet of DESIGN §4",
    "C03": "Keccak collisions assumed away; corruption menu of DESIGN §5 C03 (single and pairwise); alphabet of DESIGN §4",
    "C04": "single write failure per operation, raised as a non-KeyError exception; depth bound on the exact-state search reported in evidence",
    "C05": "alphabet of DESIGN §4; failing write is a non-KeyError exception; batch length bound reported",
    "C06": "trie starts on an empty db and is modified only through its API; oracle mpt.nodes trusted after self-test",
    "C07": "missing-node subsets complete up to the size reported in evidence; alphabet of DESIGN §4",
    "C08": "nibble paths up to the stated length; alphabet of DESIGN §4",
    "C09": "mutations bounded by M (reported); walker protocol = the one stated in the property",
    "C10": "alphabet of DESIGN §4; query keys = universe, probes and their byte-neighbours",
    "C11": "nibble alphabet and depth bound of DESIGN §4",
    "C12": "binary universe B8 of DESIGN §4; oracle mcx/ref/bintrie.py",
    "C13": "forgery menu of DESIGN §5 C13; Keccak collisions assumed away",
    "C14": "key universes of DESIGN §4; oracle mcx/ref/smt.py",
    "C15": "as C14",
    "C16": "bounds reported in evidence; the 'randomly beyond' clause is not claimed",
    "C17": "3 keys x 2 values; dict-like wrapped db",
    "C18": "distributive reading of the statement (DESIGN §5 C18)",
}


def main():
    checks, na = [], []
    for pid in sorted(TABLE):
        level, text, tech = TABLE[pid]
        mod = os.path.join(ROOT, "mcx", "checks", pid.lower() + ".py")
        if not os.path.exists(mod):
            na.append(dict(property_id=pid, reason="check not built yet in this round (planned, see DESIGN §5); not claimed until it exists"))
            continue
        checks.append(dict(
            property_id=pid,
            quick_cmd=f"./check {pid} --tier quick",
            thorough_cmd=f"./check {pid} --tier thorough",
            evidence_file=f"evidence/{pid}.json",
            replay_cmd_template=f"./check {pid} --replay {{path}}",
            engine="mcx",
            level_claimed=dict(category=level, text=text, design_ref=f"DESIGN.md §5 {pid}"),
            level_note=NOTES[pid],
            technique=tech,
        ))
    man = dict(
        version=1,
        setup_cmd="./check --selftest",
        hooks=dict(
            guard="PY_TRIE_VERIF",
            enable="no source hooks: checks wrap the db mapping from outside; trie is an editable install of /repo so checks always import the current working tree",
            baseline_off_cmd="cd /repo && /venv/bin/python -m pytest -ra -q -p no:cacheprovider --timeout=900 --continue-on-collection-errors",
            source_commits=[],
            add_only=True,
        ),
        engines=[dict(name="mcx", path="mcx/engine.py", serves_properties=[c["property_id"] for c in checks],
                      kind_free_text="hand-written explicit-state explorer driving the real py-trie objects (closure BFS, fault enumeration, bounded input enumeration), parallel over a fork pool, with replay validation of every state's history on a live object")],
        checks=checks,
        not_applicable=na,
        notes="Genuine defects found and repaired by 'fix:' commits in /repo are recorded in KNOWN_FINDINGS (fixed: lines suppress nothing).",
    )
    with open(os.path.join(ROOT, "MANIFEST.json"), "w") as f:
        json.dump(man, f, indent=1)
        f.write("\n")
    print(f"{len(checks)} checks, {len(na)} not claimed")


if __name__ == "__main__":
    main()
