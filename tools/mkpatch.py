#!/usr/bin/env python3
"""tools/mkpatch.py OUT.diff FILE OLD NEW [FILE OLD NEW ...] : make a patch against /repo by exact string replacement (then revert)."""
import subprocess
import sys

out = sys.argv[1]
args = sys.argv[2:]
assert subprocess.run(["git", "-C", "/repo", "diff", "--quiet"]).returncode == 0, "/repo dirty"
try:
    for i in range(0, len(args), 3):
        f, old, new = args[i:i + 3]
        p = "/repo/" + f
        s = open(p).read()
        assert s.count(old) == 1, (f, old, s.count(old))
        open(p, "w").write(s.replace(old, new))
    d = subprocess.run(["git", "-C", "/repo", "diff"], capture_output=True, text=True).stdout
    open(out, "w").write(d)
finally:
    subprocess.run(["git", "-C", "/repo", "checkout", "--", "."])
print(out, len(d.splitlines()), "lines")
