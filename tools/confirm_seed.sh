#!/bin/bash
# tools/confirm_seed.sh <ID> <a|b>  -- confirm a sub-agent's seeded change in its scratch worktree /tmp/seedwt/<ID>:
# patch applies cleanly; baseline suite identical (215 passed, 2 failed, 1 error); demo exits 1 with the change, 0 without.
id="$1"; v="$2"; wt=/tmp/seedwt/$id; d=/tmp/seedout/$id-$v
cd "$wt" || exit 9
git checkout -q -- . ; git clean -fdq
out="$d/confirm.json"
applies=no; tests=""; demo_with=""; demo_without=""
/venv/bin/python "$d/demo.py" >/dev/null 2>&1; demo_without=$?
if git apply --check "$d/patch.diff" 2>/dev/null; then
  applies=yes
  git apply "$d/patch.diff"
  /venv/bin/python "$d/demo.py" > "$d/demo_with_change.out" 2>&1; demo_with=$?
  tests=$(/venv/bin/python -m pytest -q -p no:cacheprovider --timeout=900 --continue-on-collection-errors 2>&1 | tail -1)
  git checkout -q -- . ; git clean -fdq
fi
importcheck=$(/venv/bin/python -c "import trie; print(trie.__file__)")
printf '{"id":"%s-%s","applies":"%s","tests":"%s","demo_exit_with_change":"%s","demo_exit_without_change":"%s","import":"%s"}\n' "$id" "$v" "$applies" "$tests" "$demo_with" "$demo_without" "$importcheck" | tee "$out"
