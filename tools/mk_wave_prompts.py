#!/usr/bin/env python3
"""tools/mk_wave_prompts.py TEMPLATE OUTDIR : one prompt per property from TEMPLATE (@ID@, @PROPERTY@ substituted), followed by the code
sites earlier waves already used for that property (taken from the hunk headers of seeded/<ID>-*/patch.diff)."""
import glob
import json
import re
import sys

tmpl, outdir = open(sys.argv[1]).read(), sys.argv[2]
for line in open("/verif/properties.jsonl"):
    d = json.loads(line)
    pid = d["id"]
    sites = set()
    for pth in glob.glob(f"/verif/seeded/{pid}-*/patch.diff"):
        cur, src, line = None, [], 0
        for l in open(pth):
            if l.startswith("+++ b/"):
                cur = l[6:].strip()
                try:
                    src = open("/repo/" + cur).read().split("\n")
                except OSError:
                    src = []
                continue
            m = re.match(r"@@ -(\d+)", l)
            if m:
                line = int(m.group(1)) - 1
                continue
            if cur is None or l.startswith("---") or l.startswith("diff ") or l.startswith("index "):
                continue
            if l.startswith("-") or l.startswith("+"):
                # enclosing def of the changed original line
                for k in range(min(line, len(src) - 1), -1, -1):
                    mm = re.match(r"\s*(?:def|class) (\w+)", src[k])
                    if mm and (len(src[k]) - len(src[k].lstrip())) <= 4:
                        sites.add(f"{cur}: {mm.group(1)}()")
                        break
            if not l.startswith("+"):
                line += 1
    text = tmpl.replace("@ID@", pid).replace("@PROPERTY@", f"{d.get('title', '')}\n\n{d['statement']}")
    text += "\n\nCode sites already used by earlier rounds for this property:\n" + "".join(f"  - {s}\n" for s in sorted(sites))
    open(f"{outdir}/{pid}.prompt.txt", "w").write(text)
    print(pid, len(sites))
