"""SparseMerkleTree (and optionally a SparseMerkleProof fed from its update stream) under exploration (DESIGN §5 C14, C15)."""
import collections

from trie.exceptions import ValidationError
from trie.smt import SparseMerkleProof, SparseMerkleTree, calc_root

from .engine import Step, digest, HarnessError
from .hexsys import V
from .ref.smt import Smt


def smt_closure(db, root, depth):
    out = {}
    stack = [(root, 0)]
    while stack:
        h, d = stack.pop()
        if (h, d) in out:
            continue
        body = db.get(h)
        out[(h, d)] = body
        if body is not None and d < depth:
            stack.append((body[:32], d + 1))
            stack.append((body[32:], d + 1))
    return out


class SmtSys:
    """snap = (root, db, proof) with proof = None | (key, value, branch tuple)"""

    def __init__(self, *, key_size=1, default=b"", keys=("00", "01", "80", "81", "40"), values=("a", "bb", ""), seed=0, props=("C14",),
                 track=None, forms=("m",), truncations=True, probes=("ff", "02"), quiet=0, chain=0):
        self.kw = dict(key_size=key_size, default=default.hex(), keys=list(keys), values=list(values), seed=seed, props=sorted(props),
                       track=track, forms=list(forms), truncations=truncations, probes=list(probes), quiet=quiet, chain=chain)
        self.quiet = quiet
        self.chain = chain
        self.many_events = bool(chain)
        self.key_size = key_size
        self.default = default
        fill = 0 if seed == 0 else (seed * 7919) % 90
        self.keys = [bytes.fromhex(k) for k in keys]
        self.probes = self.keys + [bytes.fromhex(p) for p in probes if len(bytes.fromhex(p)) == key_size and bytes.fromhex(p) not in self.keys]
        special = {"x64": b"N" * 64, "h32": b"H" * 32}
        self.vals = [special[v] if v in special else bytes((c + fill) % 256 or 1 for c in v.encode()) for v in values]
        self.props = set(props)
        self.track = bytes.fromhex(track) if track is not None else None
        self.forms = tuple(forms)
        self.truncations = truncations
        self.ref = Smt(key_size, default)
        self.stats = collections.Counter()
        self.ops = []
        for k in self.keys:
            for v in self.vals:
                self.ops.append(("set", k, v))
            self.ops.append(("del", k))

    def describe(self):
        return dict(system="SmtSys", kwargs=self.kw)

    @classmethod
    def from_kwargs(cls, kw):
        kw = dict(kw)
        kw["default"] = bytes.fromhex(kw["default"])
        for k in ("keys", "values", "props", "forms", "probes"):
            kw[k] = tuple(kw[k])
        return cls(**kw)

    def initial(self):
        t = SparseMerkleTree(key_size=self.key_size, default=self.default)
        return [((t.root_hash, dict(t.db), None), {})]

    def canon(self, snap):
        root, db, proof = snap
        clo = smt_closure(db, root, self.key_size * 8)
        return digest((root, sorted((h, d, b) for (h, d), b in clo.items()), proof))

    def restore(self, snap):
        root, db, proof = snap
        t = SparseMerkleTree.from_db(dict(db), root, key_size=self.key_size, default=self.default)
        p = None
        if proof is not None:
            p = SparseMerkleProof(proof[0], proof[1], list(proof[2]))
        return t, p

    def events(self, snap, model):
        evs = [("op", op, f) for op in self.ops for f in self.forms]
        if self.track is not None and snap[2] is None and self.ref.val(model, self.track) != b"":
            evs.append(("track",))
        if self.chain and snap[2] is None:
            import itertools
            for seq in itertools.product(self.ops, repeat=self.chain):
                evs.append(("chain",) + seq)
        if self.quiet and snap[2] is not None:
            # k updates streamed to the SAME proof object with no observation of the proof in between
            import itertools
            for seq in itertools.product(self.ops, repeat=self.quiet):
                evs.append(("quiet",) + seq)
        return evs

    def model_step(self, m, op):
        m2 = dict(m)
        v = op[2] if op[0] == "set" else self.default
        if v == self.default:
            m2.pop(op[1], None)
        else:
            m2[op[1]] = v
        return m2, v

    def apply(self, t, op, form):
        if op[0] == "set":
            if form == "m":
                return t.set(op[1], op[2])
            t[op[1]] = op[2]
            return None
        if form == "m":
            return t.delete(op[1])
        del t[op[1]]
        return None

    @staticmethod
    def psnap(p):
        return None if p is None else (p.key, p.value, tuple(p.branch))

    def step(self, snap, model, ev):
        t, p = self.restore(snap)
        viols = []
        self.stats["ev:" + ev[0]] += 1
        if ev[0] == "track":
            k = self.track
            try:
                handed = list(t.branch(k))
                p = SparseMerkleProof(k, t.get(k), handed)
                handed[0] = b"\xee" * 32  # the caller goes on to modify ITS list: the proof must not notice
                handed.append(b"junk")
            except Exception as e:  # noqa
                viols.append(V("C15", "proof_creation_raised", f"creating a proof from the tree's value and branch raised {type(e).__name__}", exc=repr(e)[:120]))
                return Step(None, model, viols)
            post = (snap[0], snap[1], self.psnap(p))
            viols += self.proof_in_sync(p, model, snap[0], "track")
            return Step(post, model, viols)
        if ev[0] == "chain":
            # several operations on ONE live tree object; reads through the same object after each
            m2 = model
            for op in ev[1:]:
                m2, v = self.model_step(m2, op)
                try:
                    ret = self.apply(t, op, "m")
                except Exception as e:  # noqa
                    viols.append(V("C14", "op_raised", f"{op[0]} raised {type(e).__name__}", event="chain", exc=repr(e)[:120]))
                    return Step(None, m2, viols)
                if t.root_hash != self.ref.root(m2) or tuple(ret) != self.ref.walk(m2, op[1])[1]:
                    viols.append(V("C14", "root_wrong", "root / returned hashes wrong in a chain of operations on one live tree", event="chain", model=m2))
                    return Step(None, m2, viols)
                bad = self._probe_same(t, m2, "chain_same_object")
                if bad:
                    return Step(None, m2, [bad])
            return Step((t.root_hash, dict(t.db), None), m2, viols)
        if ev[0] == "quiet":
            m2 = model
            try:
                for op in ev[1:]:
                    m2, v = self.model_step(m2, op)
                    ret = self.apply(t, op, "m")
                    p.update(op[1], v, tuple(ret))
            except Exception as e:  # noqa
                viols.append(V("C15", "update_raised", f"a stream of updates raised {type(e).__name__}", event="quiet", exc=repr(e)[:120]))
                return Step(None, m2, viols)
            viols += self.proof_in_sync(p, m2, self.ref.root(m2), "updates without intermediate reads")
            return Step((t.root_hash, dict(t.db), self.psnap(p)), m2, viols)
        _, op, form = ev
        m2, v = self.model_step(model, op)
        pre_db = snap[1]
        if "C14" in self.props:
            v = self._probe_same(t, model, "before_event")
            if v:
                return Step(None, model, [v])
        try:
            ret = self.apply(t, op, form)
        except Exception as e:  # noqa
            viols.append(V(self._p("C14"), "op_raised", f"{op[0]} raised {type(e).__name__}", event=op[0], exc=repr(e)[:160], key=op[1]))
            return Step(None, model, viols)
        want_root = self.ref.root(m2)
        sib, path = self.ref.walk(m2, op[1])
        if "C14" in self.props:
            if t.root_hash != want_root:
                viols.append(V("C14", "root_wrong", "root hash is not the Merkle root of the full-depth tree of the contents", event=op[0], key=op[1],
                               model=m2, got=t.root_hash, want=want_root))
            if form == "m" and (not isinstance(ret, tuple) or tuple(ret) != path):
                viols.append(V("C14", "returned_hashes_wrong", "set/delete did not return the updated path hashes root-to-leaf", event=op[0], key=op[1],
                               model=m2))
            v_same = self._probe_same(t, m2, "after_event_same_object")
            if v_same:
                viols.append(v_same)
            # the same operation on a tree re-opened over ONLY the nodes reachable from the root (an exported / pruned copy)
            clo = {h: b for (h, _), b in smt_closure(pre_db, snap[0], self.key_size * 8).items() if b is not None}
            try:
                t3 = SparseMerkleTree.from_db(clo, snap[0], key_size=self.key_size, default=self.default)
                self.apply(t3, op, "m")
                bad3 = None if t3.root_hash == want_root else "root"
                if bad3 is None:
                    bad3v = self._probe_same(t3, m2, "re-opened over reachable nodes only")
                    bad3 = bad3v["msg"] if bad3v else None
            except Exception as e:  # noqa
                bad3 = f"{type(e).__name__}: {e!r:.80}"
            if bad3:
                viols.append(V("C14", "reopened_export_differs", "a tree re-opened with from_db over only the reachable nodes behaves differently",
                               event=op[0], key=op[1], what=bad3, model=m2))
            for k_, v_ in pre_db.items():
                if t.db.get(k_) != v_:
                    viols.append(V("C14", "db_entry_changed", "an existing database entry was removed or changed", event=op[0]))
                    break
        # feed the update stream to the proof
        if p is not None:
            hashes = tuple(ret) if ret is not None else path
            if ret is None:
                # item syntax returns nothing; the stream then carries the oracle's hashes (same values when C14 holds)
                pass
            before = self.psnap(p)
            k = int.from_bytes(self.track, "big") ^ int.from_bytes(op[1], "big")
            depth = self.key_size * 8
            branch_point = None if k == 0 else depth - k.bit_length()
            if self.truncations:
                for L in range(0, depth + 1):
                    q = SparseMerkleProof(before[0], before[1], list(before[2]))
                    self.stats["truncations"] += 1
                    need = 0 if branch_point is None else branch_point + 1
                    try:
                        q.update(op[1], v, hashes[:L])
                    except ValidationError:
                        if L >= need:
                            viols.append(V("C15", "sufficient_update_rejected", "an update list reaching the first differing bit was rejected", event=op[0],
                                           key=op[1], length=L, needed=need))
                        elif self.psnap(q) != before:
                            viols.append(V("C15", "rejected_update_changed_proof", "a rejected update changed the proof", event=op[0], key=op[1], length=L))
                        continue
                    except Exception as e:  # noqa
                        viols.append(V("C15", "update_raised", f"update raised {type(e).__name__} for a truncated list", event=op[0], key=op[1], length=L,
                                       exc=repr(e)[:120]))
                        continue
                    if L < need:
                        viols.append(V("C15", "short_update_accepted", "an update list shorter than the first differing bit was accepted", event=op[0],
                                       key=op[1], length=L, needed=need))
                    else:
                        # value and branch only: root_hash is a function of them (calc_root), compared on the full update below
                        viols += self.proof_in_sync(q, m2, None, "update(truncated to %d)" % L)[:1]
                    if len(viols) > 4:
                        break
            try:
                # a caller may read root_hash at any time: do so on the object that will receive the update
                if p.root_hash != snap[0] and not viols:
                    viols.append(V("C15", "proof_root_out_of_sync", "the proof's root hash differs from the tree's root hash before the update",
                                   field="root", event="before_update"))
                p.update(op[1], v, hashes)
            except Exception as e:  # noqa
                viols.append(V("C15", "update_raised", f"update with the full list raised {type(e).__name__}", event=op[0], key=op[1], exc=repr(e)[:120]))
                return Step(None, m2, viols)
            viols += self.proof_in_sync(p, m2, want_root, "update")
        post = (t.root_hash, dict(t.db), self.psnap(p))
        return Step(post, m2, viols)

    def _p(self, preferred):
        return preferred if preferred in self.props or not self.props else sorted(self.props)[0]

    def _probe_same(self, t, m, where):
        for k in self.keys:
            val = self.ref.val(m, k)
            try:
                got = t.get(k)
            except KeyError:
                got = b""
            except Exception as e:  # noqa
                return V("C14", "read_raised", f"get({k.hex()}) raised {type(e).__name__}", key=k, where=where, model=m)
            if got != val:
                return V("C14", "read_wrong", "get does not reflect the last value written (or the default)", key=k, got=got, want=val, where=where, model=m)
        return None

    def proof_in_sync(self, p, m, root, where):
        viols = []
        k = self.track
        sib, _ = self.ref.walk(m, k)
        if p.value != self.ref.val(m, k):
            viols.append(V("C15", "proof_value_out_of_sync", "the proof's value differs from the tree's value for the tracked key", field="value", event=where))
        if tuple(p.branch) != sib:
            viols.append(V("C15", "proof_branch_out_of_sync", "the proof's branch differs from the tree's branch for the tracked key", field="branch",
                           event=where, model=m))
        if root is None:
            return viols
        try:
            if p.root_hash != root:
                viols.append(V("C15", "proof_root_out_of_sync", "the proof's root hash differs from the tree's root hash", field="root", event=where, model=m))
        except Exception as e:  # noqa
            viols.append(V("C15", "proof_root_raised", f"root_hash raised {type(e).__name__}", field="root", event=where))
        return viols

    def state_check(self, snap, model):
        viols = []
        self.stats["states_checked"] += 1
        if "C14" not in self.props:
            return viols
        root, db, _ = snap
        t, _ = self.restore(snap)
        want_root = self.ref.root(model)
        if root != want_root:
            viols.append(V("C14", "root_wrong", "root hash is not the Merkle root of the full-depth tree of the contents", model=model))
        if not model and root != SparseMerkleTree(key_size=self.key_size, default=self.default).root_hash:
            viols.append(V("C14", "cleared_root_not_initial", "with everything cleared the root differs from the initial root"))
        t2 = SparseMerkleTree.from_db(db, root, key_size=self.key_size, default=self.default)
        for view, name in ((t, "tree"), (t2, "from_db")):
            for k in self.probes:
                val = self.ref.val(model, k)
                sib, _ = self.ref.walk(model, k)
                try:
                    if val == b"":
                        for form, call in (("get", lambda: view.get(k)), ("getitem", lambda: view[k]), ("branch", lambda: view.branch(k))):
                            try:
                                got = call()
                                viols.append(V("C14", "blank_value_readable", f"{form} of a key whose value is blank did not raise KeyError", form=form,
                                               key=k, got=got, view=name))
                            except KeyError:
                                pass
                        if view.exists(k) or (k in view):
                            viols.append(V("C14", "blank_value_exists", "exists / in reports a key with a blank value as present", key=k, view=name))
                    else:
                        got = (view.get(k), view[k], view.exists(k), k in view)
                        if got != (val, val, True, True):
                            viols.append(V("C14", "read_wrong", "get / [] / exists / in do not reflect the last value written (or the default)", key=k,
                                           got=got, want=val, view=name, model=model))
                        br = view.branch(k)
                        if tuple(br) != sib:
                            viols.append(V("C14", "branch_wrong", "branch(key) is not the sibling list of the key's path", key=k, view=name, model=model))
                        if calc_root(k, val, br) != root:
                            viols.append(V("C14", "calc_root_wrong", "calc_root(key, value, branch(key)) != root_hash", key=k, view=name, model=model))
                        self.stats["readable_probes"] += 1
                except Exception as e:  # noqa
                    viols.append(V("C14", "read_raised", f"reading {k.hex()} raised {type(e).__name__}", key=k, exc=repr(e)[:120], view=name, model=model))
                if len(viols) > 3:
                    return viols
        return viols

    # live replay
    def live_new(self, i):
        return dict(t=SparseMerkleTree(key_size=self.key_size, default=self.default), p=None, m={})

    def live_apply(self, live, ev):
        t = live["t"]
        if ev[0] == "track":
            live["p"] = SparseMerkleProof(self.track, t.get(self.track), t.branch(self.track))
            return
        if ev[0] in ("quiet", "chain"):
            for op in ev[1:]:
                self.live_apply(live, ("op", op, "m"))
            return
        _, op, form = ev
        m2, v = self.model_step(live["m"], op)
        ret = self.apply(t, op, form)
        live["m"] = m2
        if live["p"] is not None:
            hashes = tuple(ret) if ret is not None else self.ref.walk(m2, op[1])[1]
            live["p"].update(op[1], v, hashes)

    def live_check(self, live):
        viols = []
        if "C14" in self.props:
            v = self._probe_same(live["t"], live["m"], "long_lived_object")
            if v:
                viols.append(v)
        if live["p"] is not None:
            viols += self.proof_in_sync(live["p"], live["m"], live["t"].root_hash, "long_lived_object")
        return viols

    def live_canon(self, live):
        t = live["t"]
        return self.canon((t.root_hash, dict(t.db), self.psnap(live["p"])))
