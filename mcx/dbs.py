"""Instrumented mappings handed to the real tries (the only 'hook': from outside)."""


class InjectedWriteFailure(Exception):
    """A database write that fails.  Deliberately not a KeyError (which the library
    interprets as 'node body missing')."""


class InjectedKeyError(KeyError):
    """A database write that fails with a KeyError subclass -- the one exception class the library handles internally
    (it means 'node body missing' on reads); a failing WRITE must not be mistaken for that."""


class LogDict(dict):
    """dict that logs reads / writes / deletes and can fail the n-th write."""

    def __init__(self, *a, **kw):
        super().__init__(*a, **kw)
        self.reads = []
        self.miss = []
        self.writes = []
        self.dels = []
        self.fail_at = None  # index (0-based) of the write that raises, counted from arm()
        self.fail_exc = InjectedWriteFailure
        self.nwrites = 0
        self.frozen = False  # when True any mutation is an error (ScratchDB checks)
        self.mutations_while_frozen = 0

    def arm(self, n, exc=None):
        self.fail_at = n
        self.nwrites = 0
        self.fail_exc = exc or InjectedWriteFailure

    def reset_log(self):
        self.reads = []
        self.miss = []
        self.writes = []
        self.dels = []
        self.nwrites = 0

    def __getitem__(self, k):
        try:
            v = dict.__getitem__(self, k)
        except KeyError:
            self.miss.append(k)
            raise
        self.reads.append(k)
        return v

    def get(self, k, d=None):
        if dict.__contains__(self, k):
            self.reads.append(k)
            return dict.__getitem__(self, k)
        self.miss.append(k)
        return d

    def __setitem__(self, k, v):
        if self.frozen:
            self.mutations_while_frozen += 1
        if self.fail_at is not None and self.nwrites == self.fail_at:
            self.nwrites += 1
            if self.fail_exc is InjectedKeyError:
                raise InjectedKeyError(k)
            raise self.fail_exc(f"write #{self.fail_at} failed")
        self.nwrites += 1
        self.writes.append((k, v))
        dict.__setitem__(self, k, v)

    def __delitem__(self, k):
        if self.frozen:
            self.mutations_while_frozen += 1
        dict.__delitem__(self, k)
        self.dels.append(k)

    _nothing = object()

    def pop(self, k, d=_nothing):
        if self.frozen:
            self.mutations_while_frozen += 1
        if dict.__contains__(self, k):
            self.dels.append(k)
            return dict.pop(self, k)
        if d is LogDict._nothing:
            raise KeyError(k)
        return d

    def update(self, *a, **kw):  # route through __setitem__
        for k, v in dict(*a, **kw).items():
            self[k] = v

    def setdefault(self, k, d=None):
        if not dict.__contains__(self, k):
            self[k] = d
        return dict.__getitem__(self, k)

    def clear(self):
        for k in list(dict.keys(self)):
            del self[k]

    def popitem(self):
        raise NotImplementedError

    def plain(self):
        return dict(dict.items(self))
