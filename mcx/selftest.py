"""./check --selftest : known-answer vectors of the oracles + interface sanity (setup_cmd).

A failure here is a broken harness (exit 2), never a property verdict.
"""
import importlib
import json
import os
import sys

ROOT = os.path.dirname(os.path.dirname(os.path.abspath(__file__)))


def main():
    ok = True
    for name in ("mpt", "bintrie", "smt"):
        try:
            mod = importlib.import_module(f"mcx.ref.{name}")
        except ModuleNotFoundError:
            continue
        try:
            mod.selftest()
            print(f"selftest {name}: ok")
        except Exception as e:  # noqa
            ok = False
            print(f"selftest {name}: FAILED {e!r}")
    # MANIFEST is valid JSON and every registered check module imports
    man = json.load(open(os.path.join(ROOT, "MANIFEST.json")))
    for c in man["checks"]:
        importlib.import_module(f"mcx.checks.{c['property_id'].lower()}")
    print(f"selftest manifest: {len(man['checks'])} checks importable")
    from . import alphabet
    for seed in (0, 1, 2, 7):
        lab = alphabet.Labels(seed)
        if not alphabet.monotone_ok(lab, list(alphabet.HEX_UNIVERSES)):
            ok = False
            print(f"selftest labels: seed {seed} relabelling is not monotone")
    return 0 if ok else 2


if __name__ == "__main__":
    sys.exit(main())
