"""C05 — squash_changes is an all-or-nothing batch (DESIGN §5 C05)."""
from ..report import Report
from .common import add_scale, run_hex, replay_hex

replay = replay_hex


def run(tier, seed):
    rep = Report("C05", tier, seed, "model_checking")
    rep.rule = ("closure BFS over outer-trie states; events: direct ops, commit(seq), abort(seq, j) for every j<=|seq|, abort by an "
                "ill-typed operation at every j, and (non-pruning) commit with the n-th database write failing for every n; "
                "abort/failed commit must restore (root, db, ref counts) exactly; commit must adopt the canonical root with a complete "
                "closure, nothing removed unless pruning, no intermediate node added")
    rep.assumptions = ["alphabet of DESIGN §4", "a failing write raises a non-KeyError exception"]
    P = ("C05",)
    ex = ("commit", "abort", "badarg", "wfail", "cancel")
    for prune in (False, True):
        run_hex(rep, f"H5xSL batch<=1 prune={prune}", universe="H5", values=("S", "L"), prune=prune, props=P + (("C06",) if prune else ()), batch_len=1, exits=ex,
                state_cap=6000)
    for prune in (False, True):
        run_hex(rep, f"H3xSL nested batches prune={prune} (a batch opened on the batch trie, each committed or aborted)", universe="H3", values=("S", "L"),
                prune=prune, props=P + (("C06",) if prune else ()), batch_len=1, exits=("commit", "abort"), nested=True, direct=False, state_cap=6000)
        run_hex(rep, f"H3xSL batch<=2 prune={prune}", universe="H3", values=("S", "L"), prune=prune, props=P + (("C06",) if prune else ()), batch_len=2,
                exits=ex, state_cap=6000)
        run_hex(rep, f"H3xSL pairs of consecutive events on ONE live object prune={prune}", universe="H3", values=("S", "L"), prune=prune,
                props=P + (("C06",) if prune else ()), batch_len=1, exits=("commit", "abort", "badarg", "cancel"), pairs=True, state_cap=6000)
    if tier == "thorough":
        for prune in (False, True):
            run_hex(rep, f"H4xSL pairs on one live object prune={prune}", universe="H4", values=("S", "L"), prune=prune,
                    props=P + (("C06",) if prune else ()), batch_len=1, exits=("commit", "abort", "badarg"), pairs=True, state_cap=6000)
            run_hex(rep, f"H5xSL batch<=2 prune={prune}", universe="H5", values=("S", "L"), prune=prune, props=P + (("C06",) if prune else ()), batch_len=2, exits=ex,
                    state_cap=6000)
            run_hex(rep, f"H3xSL batch<=3 prune={prune}", universe="H3", values=("S", "L"), prune=prune, props=P + (("C06",) if prune else ()), batch_len=3,
                    exits=("commit", "abort"), state_cap=6000)
            run_hex(rep, f"HSxSL batch<=1 prune={prune}", universe="HS", values=("S", "L"), prune=prune, props=P + (("C06",) if prune else ()), batch_len=1, exits=ex,
                    state_cap=6000)
            run_hex(rep, f"H5xST29L batch<=1 prune={prune}", universe="H5", values=("S", "T29", "L"), prune=prune, props=P + (("C06",) if prune else ()), batch_len=1,
                    exits=ex, state_cap=6000)
            run_hex(rep, f"H4xSL nested prune={prune}", universe="H4", values=("S", "L"), prune=prune, props=P + (("C06",) if prune else ()), batch_len=1,
                    exits=("commit", "abort"), nested=True, state_cap=6000)
    add_scale(rep, "C05")
    return rep
