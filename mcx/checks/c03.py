"""C03 — hexary Merkle proofs are complete and sound (DESIGN §5 C03).

For every reachable trie and every probe key: the honest proof (only on-path nodes,
verifies to get(key)), then an exhaustive menu of corruptions of the proof list.  The
oracle for a corrupted list is an independent hash-pointer walk (own RLP / Keccak): the
code must return what that walk finds or raise BadTrieProof, must raise BadTrieProof
when the walk hits a pointer nobody supplied, and with the real root must never return
anything but the model's value.
"""
import itertools

from trie import HexaryTrie
from trie.exceptions import BadTrieProof

from ..enumerate import Out, hex_states, per_state, replay_per_state
from ..hexsys import restore, apply_op
from ..ref import mpt
from ..report import Report
from .common import add_scale

MISSING = object()
UNKNOWN_ROOT = mpt.keccak(b"no trie has this root")


def ref_lookup(root, key_nibs, nodes):
    """independent resolution of key from root through hash pointers over the offered nodes"""
    db = {}
    for n in nodes:
        db[mpt.keccak(mpt.rlp(n))] = n
    if root == mpt.BLANK_ROOT:
        return b""
    node = db.get(root, MISSING)
    k = tuple(key_nibs)
    while True:
        if node is MISSING:
            return MISSING
        if node == b"":
            return b""
        if len(node) == 17:
            if not k:
                return node[16]
            ref, k = node[k[0]], k[1:]
        else:
            seg, t = mpt.hp_decode(node[0])
            if t:
                return node[1] if seg == k else b""
            if k[: len(seg)] != seg or len(k) < len(seg):
                return b""
            ref, k = node[1], k[len(seg):]
        if isinstance(ref, list):
            node = ref
        elif ref == b"":
            node = b""
        else:
            node = db.get(ref, MISSING)


def deep(n):
    return [deep(i) for i in n] if isinstance(n, (list, tuple)) else n


def scribble(n):
    """overwrite a decoded node in place, recursively"""
    if isinstance(n, list):
        for i in range(len(n)):
            if isinstance(n[i], list):
                scribble(n[i])
            else:
                n[i] = b"\xde\xad"


def freeze(n):
    return tuple(freeze(i) for i in n) if isinstance(n, (list, tuple)) else n


def alterations(node, other_hashes, newval):
    """finite menu of well-formed single-node alterations -> [(name, node')]"""
    out = []
    if len(node) == 2:
        seg, t = mpt.hp_decode(node[0])
        if t:
            out.append(("leaf_value", [node[0], newval]))
            if isinstance(node[1], bytes) and len(node[1]) == 32:
                out.append(("leaf_to_ext", [mpt.hp(seg, False), node[1]]))
        else:
            if isinstance(node[1], bytes):
                out.append(("ext_to_leaf", [mpt.hp(seg, True), node[1]]))
                for h in other_hashes:
                    if h != node[1]:
                        out.append(("ext_child_replaced", [node[0], h]))
        if seg:
            s2 = list(seg)
            s2[-1] = (s2[-1] + 1) % 16
            out.append(("path_nibble_changed", [mpt.hp(s2, t), deep(node[1])]))
            if t or len(seg) >= 2:  # an extension with an empty path is not a well-formed node
                out.append(("path_shortened", [mpt.hp(seg[:-1], t), deep(node[1])]))
        out.append(("path_extended", [mpt.hp(tuple(seg) + (0,), t), deep(node[1])]))
    elif len(node) == 17:
        used = [i for i in range(16) if node[i] != b""]
        for i in used:
            n2 = deep(node)
            n2[i] = b""
            out.append(("slot_blanked", n2))
        for i, j in itertools.combinations(range(16), 2):
            if node[i] != node[j] and (i in used or j in used) and (j - i == 1 or (i in used and j in used)):
                n2 = deep(node)
                n2[i], n2[j] = n2[j], n2[i]
                out.append(("slots_swapped", n2))
        n2 = deep(node)
        n2[16] = newval if node[16] != newval else newval + b"!"
        out.append(("branch_value", n2))
        for i in used:
            if isinstance(node[i], bytes):
                for h in other_hashes:
                    if h != node[i]:
                        n2 = deep(node)
                        n2[i] = h
                        out.append(("child_hash_replaced", n2))
    return out


def make_fn(tier):
    thorough = tier == "thorough"

    def fn(sysm, snap, model):
        o = Out()
        t = restore(snap, logdict=False)
        root = snap[0]
        newval = sysm.labels.value("M")
        # neighbours one transition away (start from non-initial states, cross-trie proofs)
        neigh = {}
        for op in sysm.ops:
            t2 = restore(snap, logdict=False)
            m2 = dict(model)
            apply_op(t2, m2, op)
            if t2.root_hash != root and t2.root_hash not in neigh and len(neigh) < (28 if thorough else 10):
                neigh[t2.root_hash] = (t2, m2)
        honest = {}
        for k in sysm.probes:
            kn = mpt.nib(k)
            want = model.get(k, b"")
            try:
                P = t.get_proof(k)
            except Exception as e:  # noqa
                o.viol("C03", "get_proof_raised", f"get_proof({k.hex()}) raised {type(e).__name__}", key=k, exc=repr(e)[:160])
                continue
            P = tuple(deep(n) for n in P)
            honest[k] = P
            path = mpt.path(model, kn)
            encs = [n.enc for n in path]
            o.evals += 1
            for n in P:
                if mpt.rlp(n) not in encs:
                    o.viol("C03", "proof_off_path_node", "get_proof returned a node that is not on the key's path", key=k, node=n)
                    break
            o.stats["proof_len:%d" % len(P)] += 1
            o.stats["key_kind:" + ("present" if want else "absent")] += 1

            seen = set()

            def offer(claimed_root, nodes, kind, truth=None):
                """evaluate one forged proof; truth = value the trie with claimed_root really holds (if known)"""
                key_ = (claimed_root, freeze(nodes))
                if key_ in seen:
                    return
                seen.add(key_)
                o.evals += 1
                exp = ref_lookup(claimed_root, kn, nodes)
                try:
                    got = HexaryTrie.get_from_proof(claimed_root, k, [deep(n) for n in nodes])
                except BadTrieProof:
                    got = BadTrieProof
                except Exception as e:  # noqa
                    o.viol("C03", "proof_other_exception", f"get_from_proof raised {type(e).__name__} on a list of well-formed nodes",
                           kind=kind, key=k, exc=repr(e)[:160], proof=nodes, root=claimed_root)
                    return
                if got is BadTrieProof:
                    o.nontrivial += 1
                    o.stats["rejected:" + kind] += 1
                    if kind == "honest":
                        o.viol("C03", "honest_proof_rejected", "get_from_proof rejected get_proof(key)", key=k, kind=kind)
                    return
                if exp is MISSING:
                    o.viol("C03", "withheld_node_accepted", "a value was returned although a hash pointer on the key's path resolves to no supplied node",
                           kind=kind, key=k, got=got, proof=nodes, root=claimed_root)
                    return
                if got != exp:
                    o.viol("C03", "proof_wrong_value", "returned value differs from what the supplied nodes define for that root",
                           kind=kind, key=k, got=got, want=exp, proof=nodes, root=claimed_root)
                    return
                if truth is not None and got != truth:
                    o.viol("C03", "proof_unsound", "returned a value the trie with that root does not hold",
                           kind=kind, key=k, got=got, truth=truth, proof=nodes, root=claimed_root)
                    return
                if got != want or claimed_root != root:
                    o.nontrivial += 1
                o.stats["accepted:" + kind] += 1

            # 1. honest proof verifies to the model value
            try:
                got = HexaryTrie.get_from_proof(root, k, [deep(n) for n in P])
                if got != want:
                    o.viol("C03", "honest_proof_wrong", "get_from_proof(root, key, get_proof(key)) != get(key)", key=k, got=got, want=want)
            except Exception as e:  # noqa
                o.viol("C03", "honest_proof_rejected", f"get_from_proof raised {type(e).__name__} on get_proof(key)", key=k, exc=repr(e)[:160])
            offer(root, P, "honest", want)
            # 2. every sub-list; withholding a hashed on-path node must be refused
            hashed_encs = {n.enc for n in path if n.hashed}
            for r in range(len(P)):
                for sub in itertools.combinations(range(len(P)), r):
                    nodes = tuple(P[i] for i in sub)
                    withheld = hashed_encs - {mpt.rlp(n) for n in nodes}
                    if withheld:
                        o.evals += 1
                        try:
                            got = HexaryTrie.get_from_proof(root, k, [deep(n) for n in nodes])
                            o.viol("C03", "withheld_node_accepted", "a hashed node on the key's path was withheld but a value was returned",
                                   kind="sublist", key=k, got=got, proof=nodes)
                        except BadTrieProof:
                            o.nontrivial += 1
                            o.stats["rejected:withheld"] += 1
                        except Exception as e:  # noqa
                            o.viol("C03", "proof_other_exception", f"get_from_proof raised {type(e).__name__} on a sub-list of the proof",
                                   kind="sublist", key=k, exc=repr(e)[:160], proof=nodes)
                        seen.add((root, freeze(nodes)))
                    else:
                        offer(root, nodes, "sublist", want)
            # 3. order and duplication
            if len(P) <= (5 if thorough else 4):
                for perm in itertools.permutations(P):
                    offer(root, perm, "permuted", want)
            else:
                for i in range(1, len(P)):
                    offer(root, P[i:] + P[:i], "rotated", want)
            offer(root, P[::-1], "reversed", want)
            for i in range(len(P)):
                offer(root, P[: i + 1] + (P[i],) + P[i + 1:], "duplicated", want)
            # 4. single alterations (substituted / appended / prepended), then pairs
            all_hashes = sorted({n.hash for n in mpt.walk(mpt.tree(model)) if n.hashed and n.hash != root})
            alts = []
            for i, n in enumerate(P):
                for name, n2 in alterations(n, all_hashes, newval):
                    alts.append((i, name, n2))
            for i, name, n2 in alts:
                offer(root, P[:i] + (n2,) + P[i + 1:], "alt:" + name, want)
                offer(root, P + (n2,), "alt+:" + name, want)
                offer(root, (n2,) + P, "+alt:" + name, want)
                # the forger may also claim the root the altered list hashes to
                offer(mpt.keccak(mpt.rlp(n2)), P[:i] + (n2,) + P[i + 1:], "altroot:" + name)
            if len(P) <= 4 and (thorough or len(alts) <= 24):
                for (i, na, a), (j, nb, b) in itertools.combinations(alts, 2):
                    if i == j:
                        continue
                    nodes = list(P)
                    nodes[i], nodes[j] = a, b
                    offer(root, tuple(nodes), "alt2", want)
            # 5. unknown root, blank root, other well-known hashes nobody supplied a node for
            offer(UNKNOWN_ROOT, P, "unknown_root")
            for sentinel in (mpt.keccak(b""), b"\x00" * 32, mpt.keccak(b"\x00")):
                offer(sentinel, P, "sentinel_root")
            if root != mpt.BLANK_ROOT:
                offer(mpt.BLANK_ROOT, P, "blank_root", b"")
            # 6. other tries: neighbour's proof against this root, this proof against the neighbour's root, mixed
            for r2, (t2, m2) in neigh.items():
                try:
                    P2 = tuple(deep(n) for n in t2.get_proof(k))
                except Exception as e:  # noqa
                    o.viol("C03", "get_proof_raised", f"get_proof raised {type(e).__name__} on a neighbour trie", key=k)
                    continue
                offer(root, P2, "foreign_proof", want)
                offer(r2, P, "foreign_root", m2.get(k, b""))
                offer(root, P2 + P, "foreign_mixed", want)
                offer(r2, P + P2, "foreign_mixed", m2.get(k, b""))
            if len(o.samples) < 1 and P:
                o.samples.append(dict(key=k, proof_len=len(P), value=want))
        # 6b. whatever get_proof hands out belongs to the caller: scribble over it, the trie must be unaffected
        for k in sysm.probes:
            try:
                handed = t.get_proof(k)
            except Exception:  # noqa
                continue
            for node in handed:
                scribble(node)
        for k in sysm.probes:
            o.evals += 1
            try:
                got = t.get(k)
                again = tuple(deep(n) for n in t.get_proof(k))
            except Exception as e:  # noqa
                o.viol("C03", "proof_nodes_aliased", f"after modifying nodes returned by get_proof the trie raised {type(e).__name__}", key=k, kind="aliasing")
                break
            if got != model.get(k, b"") or again != honest.get(k, again):
                o.viol("C03", "proof_nodes_aliased", "modifying the node lists returned by get_proof changed what the trie returns", key=k, kind="aliasing")
                break
        # 7. proofs produced for another key
        for k, P in honest.items():
            kn = mpt.nib(k)
            for k2, P2 in honest.items():
                if k2 == k or P2 == P:
                    continue
                o.evals += 1
                exp = ref_lookup(root, kn, P2)
                try:
                    got = HexaryTrie.get_from_proof(root, k, [deep(n) for n in P2])
                except BadTrieProof:
                    o.nontrivial += 1
                    o.stats["rejected:other_key"] += 1
                    continue
                except Exception as e:  # noqa
                    o.viol("C03", "proof_other_exception", f"get_from_proof raised {type(e).__name__}", kind="other_key", key=k, exc=repr(e)[:160])
                    continue
                if exp is MISSING or got != model.get(k, b""):
                    o.viol("C03", "proof_unsound", "a proof for another key validated a wrong answer", kind="other_key", key=k, other=k2, got=got)
                o.stats["accepted:other_key"] += 1
        return o

    return fn


def proofs_everywhere(sysm, snap, model):
    o = Out()
    root = snap[0]
    for where in ("pruning trie", "batch trie of a pruning trie", "batch trie of a non-pruning trie"):
        t = restore(snap, logdict=False) if where != "batch trie of a non-pruning trie" else restore((snap[0], snap[1], None), logdict=False)
        for k in sysm.probes:
            o.evals += 1
            try:
                if where == "pruning trie":
                    proof = t.get_proof(k)
                else:
                    with t.squash_changes() as b:
                        proof = b.get_proof(k)
                got = HexaryTrie.get_from_proof(root, k, [deep(n) for n in proof])
            except Exception as e:  # noqa
                o.viol("C03", "get_proof_raised", f"get_proof / get_from_proof raised {type(e).__name__} on a {where}", key=k, kind=where, exc=repr(e)[:120])
                break
            if got != model.get(k, b""):
                o.viol("C03", "honest_proof_wrong", f"proof produced by a {where} does not verify to get(key)", key=k, kind=where)
                break
            o.nontrivial += 1
    return o


def run(tier, seed):
    rep = Report("C03", tier, seed, "fault_enumeration")
    rep.rule = ("states = every trie of a closure BFS; per state and probe key: honest proof, every sub-list, permutations/rotations, "
                "duplicates, single well-formed alterations (substituted, appended, prepended, with the forged root), pairs of alterations, "
                "unknown/blank root, proofs from/against every neighbour trie, proofs of other keys; identical (root, node list) pairs are "
                "evaluated once; non-trivial = the forged list was rejected with BadTrieProof or validated a value/root other than the honest one")
    rep.assumptions = ["Keccak collisions assumed away", "forged nodes come from the finite well-formed alteration menu of DESIGN §5 C03",
                       "alphabet of DESIGN §4"]
    fn = make_fn(tier)
    plans = [("H6xSL", dict(universe="H6", values=("S", "L")))]
    if tier == "thorough":
        plans = [("H7xSL", dict(universe="H7", values=("S", "L"))), ("H5xST29L", dict(universe="H5", values=("S", "T29", "L"))),
                 ("HS4xSL", dict(universe="HS", values=("S", "L"))), ("HWxSL", dict(universe="HW", values=("S", "L")))]
    for name, kw in plans:
        sysm, states = hex_states(rep, name, **kw)
        per_state(rep, name + " proofs", sysm, states, fn)
    # proofs are a read-only service of EVERY trie: pruning tries and the trie yielded by squash_changes included
    sysm, states = hex_states(rep, "H4xSL prune=True", universe="H4", values=("S", "L"), prune=True)
    per_state(rep, "H4xSL proofs on pruning tries and inside squash_changes", sysm, states, proofs_everywhere)
    add_scale(rep, "C03")
    return rep


def replay(doc):
    if doc["system"].get("system") == "scale":
        from .common import replay_hex
        return replay_hex(doc)
    return replay_per_state(doc, make_fn(doc.get("tier", "quick")))
