"""C06 — pruning is exact: db holds precisely the live nodes, ref counts are true (DESIGN §5 C06)."""
from ..report import Report
from .common import add_scale, run_hex, replay_hex

replay = replay_hex


def run(tier, seed):
    rep = Report("C06", tier, seed, "model_checking")
    rep.rule = ("closure BFS over pruning tries from an empty database: direct ops (incl. no-op re-sets and deletes of absent keys) mixed "
                "with committed and aborted squash_changes batches; in EVERY state: set(db) == hashed nodes of the canonical trie of the "
                "contents (bodies equal), non-zero ref counts == number of reference paths per node, regenerate_ref_count() likewise, "
                "every probe readable; exact-state canonical form")
    rep.assumptions = ["alphabet of DESIGN §4 incl. shared sub-tries (HS) and threshold value T29", "trie starts on an empty database and is only modified through its API"]
    P = ("C06",)
    run_hex(rep, "H5xST29L direct", universe="H5", values=("S", "T29", "L"), prune=True, props=P, state_cap=8000)
    run_hex(rep, "H5xSL batch<=1", universe="H5", values=("S", "L"), prune=True, props=P, batch_len=1, exits=("commit", "abort"), state_cap=8000)
    run_hex(rep, "HSxSL direct", universe="HS", values=("S", "L"), prune=True, props=P, state_cap=8000)
    run_hex(rep, "H7xSL direct", universe="H7", values=("S", "L"), prune=True, props=P, state_cap=8000)
    run_hex(rep, "HW4 x V32/V55/V56 direct (32-byte values, RLP long-string boundary)", universe="HW4", values=("V32", "V55", "V56"), prune=True, props=P, state_cap=8000)
    run_hex(rep, "H2xSL chains of 3 events on ONE live object, direct operations and committed batches mixed (short <-> long roots)", universe="H2",
            values=("S", "L"), prune=True, props=P, batch_len=1, exits=("commit",), chain=3, state_cap=8000)
    run_hex(rep, "HCxSL batch<=2 (a transient node equals a node created elsewhere)", universe="HC", values=("S", "L"), prune=True, props=P, batch_len=2,
            exits=("commit", "abort"), state_cap=8000)
    run_hex(rep, "H3SxSL direct (a node referenced three times)", universe="H3S", values=("S", "L"), prune=True, props=P, state_cap=8000)
    run_hex(rep, "H3xSL nested batches (a batch opened on the batch trie, each committed or aborted)", universe="H3", values=("S", "L"), prune=True, props=P,
            batch_len=1, exits=("commit", "abort"), nested=True, direct=False, state_cap=8000)
    run_hex(rep, "H3xSL batch<=2 (batches that return to the starting root)", universe="H3", values=("S", "L"), prune=True, props=P, batch_len=2,
            exits=("commit", "abort", "cancel"), state_cap=8000)
    run_hex(rep, "HT x one-byte values around 0x80 (55-nibble leaf paths: node sizes 31 / 32)", universe="HT", values=("B7f", "B80", "Bff"), prune=True,
            props=P, state_cap=8000)
    run_hex(rep, "HP3 x sentinel-valued contents", universe="HP3", values=("S", "VBNH", "L"), prune=True, props=P, state_cap=8000)
    run_hex(rep, "H3xSL pairs of consecutive events on ONE live object", universe="H3", values=("S", "L"), prune=True, props=P, batch_len=1,
            exits=("commit", "abort"), pairs=True, state_cap=8000)
    if tier == "thorough":
        run_hex(rep, "HS4xSL pairs on one live object", universe="HS4", values=("S", "L"), prune=True, props=P, batch_len=1,
                exits=("commit", "abort"), pairs=True, state_cap=8000)
        run_hex(rep, "H5xST29L batch<=1", universe="H5", values=("S", "T29", "L"), prune=True, props=P, batch_len=1, exits=("commit", "abort"), state_cap=8000)
        run_hex(rep, "H5xSL batch<=2", universe="H5", values=("S", "L"), prune=True, props=P, batch_len=2, exits=("commit", "abort"), state_cap=8000)
        run_hex(rep, "HSxSL batch<=1", universe="HS", values=("S", "L"), prune=True, props=P, batch_len=1, exits=("commit", "abort"), state_cap=8000)
        run_hex(rep, "H9xSL direct", universe="H9", values=("S", "L"), prune=True, props=P, state_cap=30000)
        run_hex(rep, "H7xST29L direct", universe="H7", values=("S", "T29", "L"), prune=True, props=P, state_cap=30000)
        run_hex(rep, "HWxSL direct", universe="HW", values=("S", "L"), prune=True, props=P, state_cap=8000)
        run_hex(rep, "HLxSL direct", universe="HL", values=("S", "L"), prune=True, props=P, state_cap=8000)
        run_hex(rep, "H4xSL nested", universe="H4", values=("S", "L"), prune=True, props=P, batch_len=1, exits=("commit", "abort"), nested=True, state_cap=8000)
    add_scale(rep, "C06", prunes=(True,))
    return rep
