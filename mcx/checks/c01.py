"""C01 — HexaryTrie behaves as a byte-string map under every history (DESIGN §5 C01)."""
from ..report import Report
from .common import add_scale, run_hex, replay_hex

replay = replay_hex


def run(tier, seed):
    rep = Report("C01", tier, seed, "model_checking")
    rep.rule = ("closure BFS to fixpoint over set/delete/set-empty (method and item syntax) and squash_changes batches; "
                "every reachable state is probed with get/[]/exists/in for every universe key and absent probe keys "
                "against a dict model; a state is non-trivial/distinct by its canonical form (root + reachable closure, "
                "or exact db+refcounts when pruning)")
    rep.assumptions = ["key/value alphabet of DESIGN §4; byte values outside it only through order-preserving relabelling (VERIF_SEED)",
                       "database is a dict-like in-memory mapping"]
    P = ("C01",)
    for prune in (False, True):
        run_hex(rep, f"H7xSL direct prune={prune}", universe="H7", values=("S", "L"), prune=prune, props=P, forms=("m",))
        run_hex(rep, f"H4xSL direct, method and item syntax prune={prune}", universe="H4", values=("S", "L"), prune=prune, props=P, forms=("m", "i"))
        run_hex(rep, f"H5xSL batch<=1 prune={prune}", universe="H5", values=("S", "L"), prune=prune, props=P, batch_len=1,
                exits=("commit", "abort"))
        run_hex(rep, f"HW4xSL direct prune={prune} (slots 0 and 15, branch value)", universe="HW4", values=("S", "L"), prune=prune, props=P)
        run_hex(rep, f"HXXLxSL direct prune={prune} (130-byte keys)", universe="HXXL", values=("S", "L"), prune=prune, props=P)
        run_hex(rep, f"HVxSL direct prune={prune} (empty key, 20-byte key, two 34-byte keys)", universe="HV", values=("S", "L"), prune=prune, props=P)
        run_hex(rep, f"HW4 x single-byte / RLP-boundary values prune={prune}", universe="HW4", values=("Z00", "B80", "V55", "V56"), prune=prune, props=P)
        run_hex(rep, f"HL4xSL direct prune={prune} (32-byte keys, extensions longer than 32 nibbles)", universe="HL", values=("S", "L"), prune=prune, props=P)
    for prune in (False, True):
        run_hex(rep, f"HS4xSL direct prune={prune} (identical sub-tries: nodes referenced twice)", universe="HS4", values=("S", "L"), prune=prune, props=P)
        run_hex(rep, f"HP3 x sentinel-valued contents prune={prune} (value == hash of the blank root)", universe="HP3", values=("S", "VBNH"),
                prune=prune, props=P)
        run_hex(rep, f"H3xSL nested batches prune={prune}", universe="H3", values=("S", "L"), prune=prune, props=P, batch_len=1,
                exits=("commit", "abort"), nested=True, direct=False)
        run_hex(rep, f"H3xSL chains of 3 consecutive operations on ONE live object prune={prune}", universe="H3", values=("S", "L"), prune=prune,
                props=P, chain=3)
        run_hex(rep, f"H3xSL pairs of consecutive events on ONE live object (direct + batches) prune={prune}", universe="H3", values=("S", "L"),
                prune=prune, props=P, batch_len=1, exits=("commit", "abort"), pairs=True)
    if tier == "thorough":
        for prune in (False, True):
            run_hex(rep, f"H4xSL chains of 3 operations on ONE live object prune={prune}", universe="H4", values=("S", "L"), prune=prune, props=P, chain=3)
            run_hex(rep, f"HS4xSL chains of 3 operations on ONE live object prune={prune}", universe="HS4", values=("S", "L"), prune=prune, props=P, chain=3)
            run_hex(rep, f"H4xSL pairs on one live object prune={prune}", universe="H4", values=("S", "L"), prune=prune, props=P, batch_len=1,
                    exits=("commit", "abort"), pairs=True)
            run_hex(rep, f"H9xSL direct prune={prune}", universe="H9", values=("S", "L"), prune=prune, props=P)
            run_hex(rep, f"H7xST29L direct prune={prune}", universe="H7", values=("S", "T29", "L"), prune=prune, props=P)
            run_hex(rep, f"HLxSL direct prune={prune}", universe="HL", values=("S", "L"), prune=prune, props=P, forms=("m", "i"))
            run_hex(rep, f"HWxSL direct prune={prune}", universe="HW", values=("S", "L"), prune=prune, props=P)
            run_hex(rep, f"HSxSL direct prune={prune}", universe="HS", values=("S", "L"), prune=prune, props=P)
            run_hex(rep, f"H5xSL batch<=2 prune={prune}", universe="H5", values=("S", "L"), prune=prune, props=P, batch_len=2,
                    exits=("commit", "abort"))
            run_hex(rep, f"H3xSL batch<=3 prune={prune}", universe="H3", values=("S", "L"), prune=prune, props=P, batch_len=3,
                    exits=("commit",))
    add_scale(rep, "C01")
    return rep
