"""C07 — missing nodes: operations fail atomically and report the truth (DESIGN §5 C07).

For every reachable trie, every subset M of absent hashed node bodies (complete up to a
size bound that is reported) and every call: the outcome equals the complete-db outcome
or is a truthful Missing* exception; a failed call changes nothing; the retry loop that
supplies only the reported node converges, asking for each node at most once.
"""
import itertools
from collections import defaultdict

from trie import HexaryTrie
from trie.exceptions import MissingTrieNode, MissingTraversalNode, TraversedPartialPath

from ..enumerate import Out, hex_states, per_state, replay_per_state
from ..hexsys import apply_op
from ..ref import mpt
from ..report import Report


def mk(db, root, rc):
    root = bytes(bytearray(root))  # an equal, never identical root object (as in hexsys.restore)
    if rc is None:
        return HexaryTrie(db, root)
    c = defaultdict(int)
    c.update(rc)
    return HexaryTrie(db, root, prune=True, ref_count=c)


def state_of(t):
    rc = None if not t.is_pruning else {k: v for k, v in t.ref_count.items() if v}
    return (t.root_hash, dict(t.db), rc, getattr(t, "_pending_prune_keys", None))


def trav_result(fn):
    """normalise the outcome of a traversal into comparable data"""
    try:
        n = fn()
        return ("node", n.node_type, n.sub_segments, n.value, n.suffix, mpt.rlp(_raw(n.raw)))
    except TraversedPartialPath as e:
        s = e.simulated_node
        return ("partial", tuple(e.nibbles_traversed), mpt.rlp(_raw(e.node.raw)), tuple(e.untraversed_tail),
                s.node_type, s.sub_segments, s.value, s.suffix)


def _raw(r):
    return b"" if r == b"" else [(_raw(i) if isinstance(i, (list, tuple)) else bytes(i)) for i in r]


def delete_sibling(model, kn):
    """hashed node (if any) that delete(k) must read besides the key's path: the single child a branch is collapsed into"""
    if mpt.unnib(kn) not in model:
        return None
    path = mpt.path(model, kn)
    branches = [n for n in path if n.kind == "branch"]
    if not branches:
        return None
    b = branches[-1]
    rest = kn[len(b.pos):]
    children = dict(b.children)
    has_value = bool(b.value)
    if not rest:
        has_value = False
    else:
        children.pop((rest[0],), None)  # deepest branch on the path: the slot holds only k
    if len(children) == 1 and not has_value:
        c = next(iter(children.values()))
        return c.hash if c.hashed else None
    return None


def make_fn(tier, max_all=6, big_size=2):
    def fn(sysm, snap, model):
        o = Out()
        root, db, rc = snap
        prune = rc is not None
        hashed = sorted(db) if prune else sorted(mpt.closure(db, root)[0])
        if not hashed:
            return o
        n = len(hashed)
        if n <= max_all:
            subsets = [c for r in range(1, n + 1) for c in itertools.combinations(hashed, r)]
            o.stats["subset_bound:all"] += 1
        else:
            subsets = [c for r in range(1, big_size + 1) for c in itertools.combinations(hashed, r)]
            o.stats["subset_bound:size<=%d" % big_size] += 1
        pos_of = {}
        for nd in mpt.walk(mpt.tree(model)):
            if nd.hashed:
                pos_of.setdefault(nd.hash, set()).add(nd.pos)
        labels = sysm.labels
        vals = [labels.value("S"), labels.value("L")]
        complete = mk(dict(db), root, rc)
        # ---- the calls and their complete-db outcomes
        calls = []
        for k in sysm.probes:
            kn = mpt.nib(k)
            allowed = [nd for nd in mpt.path(model, kn) if nd.hashed]
            calls.append(("get", k, None, complete.get(k), allowed, None))
            calls.append(("exists", k, None, complete.exists(k), allowed, None))
        muts = []
        for k in sysm.keys:
            kn = mpt.nib(k)
            allowed = [nd.hash for nd in mpt.path(model, kn) if nd.hashed]
            for v in vals:
                muts.append((("set", k, v), allowed))
            sib = delete_sibling(model, kn)
            muts.append((("del", k), allowed + ([sib] if sib else [])))
            muts.append((("clr", k), allowed + ([sib] if sib else [])))
        mut_complete = {}
        for op, _ in muts:
            t = mk(dict(db), root, rc)
            apply_op(t, {}, op)
            mut_complete[op] = state_of(t)
        second_in_batch = {}
        for op, _ in muts:
            k = op[1]
            other = [x for x in sysm.keys if x != k][0]
            pre_op = ("set", other, vals[1])
            m1 = dict(model)
            m1[other] = vals[1]
            kn = mpt.nib(k)
            allowed2 = [nd.hash for nd in mpt.path(m1, kn) if nd.hashed]
            if op[0] != "set":
                sib = delete_sibling(m1, kn)
                if sib:
                    allowed2.append(sib)
            t = mk(dict(db), root, rc)
            apply_op(t, {}, pre_op)
            apply_op(t, {}, op)
            second_in_batch[op] = (allowed2, state_of(t), pre_op)
        if prune:
            # nothing is absent and the trie was re-opened the documented way (regenerated reference counts): no call may
            # report a missing node, and a "missing" hash that IS in the database would send a retry loop round in circles
            for op, _ in muts:
                o.evals += 1
                t = HexaryTrie(dict(db), bytes(bytearray(root)), prune=True, ref_count=complete.regenerate_ref_count())
                try:
                    apply_op(t, {}, op)
                    if t.root_hash != mut_complete[op][0]:
                        o.viol("C07", "wrong_result", "a re-opened pruning trie gives another root than the original object", call=op[0], key=op[1])
                        break
                except (MissingTrieNode, MissingTraversalNode) as e:
                    o.viol("C07", "missing_hash_not_absent", "a missing node was reported although no node body is absent (trie re-opened with regenerated "
                           "reference counts)", call=op[0], key=op[1], reported=bytes(e.missing_node_hash))
                    break
                except Exception as e:  # noqa
                    o.viol("C07", "other_exception", f"{op[0]} on a re-opened pruning trie raised {type(e).__name__}", call=op[0], key=op[1], exc=repr(e)[:120])
                    break
        paths = set()
        for k in model:
            kn = mpt.nib(k)
            for i in range(len(kn) + 1):
                paths.add(kn[:i])
                paths.add(kn[:i] + (0,))
                paths.add(kn[:i] + (15,))
        paths = sorted(paths)
        trav = []
        for p in paths:
            allowed = [nd for nd in mpt.path(model, p) if nd.hashed]
            trav.append((p, trav_result(lambda: complete.traverse(p)), allowed))
        froms = []
        for q in paths:
            if mpt.node_at(model, q)[0] != "node":
                continue
            node_q = complete.traverse(q)
            for p in paths:
                if len(p) > len(q) and p[: len(q)] == q:
                    seg = p[len(q):]
                    allowed = [nd for nd in mpt.path(model, p) if nd.hashed and len(nd.pos) > len(q)]
                    froms.append((q, node_q, seg, trav_result(lambda: complete.traverse_from(node_q, seg)), allowed))

        # a later state of the same non-pruning trie (one write further): lookups at THIS root then go through an at_root snapshot
        later = None
        if not prune:
            for op, _ in muts:
                t = mk(dict(db), root, rc)
                apply_op(t, {}, op)
                if t.root_hash != root:
                    later = (t.root_hash, dict(t.db), op)
                    break

        def check_exc(e, kind, key, M, fdb, allowed_hashes, want_prefix, cur_root):
            h = bytes(e.missing_node_hash)
            if h not in M or h in fdb:
                o.viol("C07", "missing_hash_not_absent", "the reported hash is not one of the absent node bodies", call=kind, key=key, reported=h)
                return None
            if h not in allowed_hashes:
                o.viol("C07", "missing_hash_off_path", "the reported hash does not lie on the requested path", call=kind, key=key, reported=h)
                return None
            if isinstance(e, MissingTrieNode):
                if bytes(e.root_hash) != cur_root or bytes(e.requested_key) != key:
                    o.viol("C07", "missing_wrong_root_or_key", "MissingTrieNode carries a wrong root hash or requested key", call=kind, key=key)
                if kind in ("get", "exists"):
                    if e.prefix is None or tuple(e.prefix) not in want_prefix(h):
                        o.viol("C07", "missing_wrong_prefix", "MissingTrieNode.prefix is not the nibble path leading to the missing node",
                               call=kind, key=key, prefix=None if e.prefix is None else tuple(e.prefix), want=sorted(want_prefix(h)))
            else:
                if tuple(e.nibbles_traversed) not in want_prefix(h):
                    o.viol("C07", "missing_wrong_prefix", "MissingTraversalNode.nibbles_traversed is not the path leading to the missing node",
                           call=kind, key=key, prefix=tuple(e.nibbles_traversed), want=sorted(want_prefix(h)))
            return h

        for M in subsets:
            Mset = set(M)
            fdb0 = {k: v for k, v in db.items() if k not in Mset}
            # ---------------- lookups and traversals on one faulty trie (must not change it)
            ft = mk(dict(fdb0), root, rc)
            before = state_of(ft)
            for kind, k, _, want, allowed, _ in calls:
                o.evals += 1
                asked = []
                retry_key = k
                while True:
                    cur = state_of(ft)
                    try:
                        got = ft.get(retry_key) if kind == "get" else ft.exists(retry_key)
                    except MissingTrieNode as e:
                        o.nontrivial += 1 if not asked else 0
                        h = check_exc(e, kind, k, Mset, ft.db, {nd.hash for nd in allowed}, lambda h: pos_of.get(h, ()), root)
                        if state_of(ft) != cur:
                            o.viol("C07", "failed_call_changed_state", "a failed lookup changed the trie", call=kind, key=k)
                        if h is None:
                            break
                        if h in asked or len(asked) > len(Mset):
                            o.viol("C07", "retry_asks_twice", "the retry loop was asked for the same node twice", call=kind, key=k)
                            break
                        asked.append(h)
                        ft.db[h] = db[h]
                        retry_key = e.requested_key  # what the exception hands back (a bytes subclass), as a caller would use it
                        continue
                    except Exception as e:  # noqa
                        o.viol("C07", "other_exception", f"{kind} raised {type(e).__name__} with node bodies absent"
                               + (" (retrying with the exception's own requested_key)" if asked else ""), call=kind, key=k, exc=repr(e)[:160])
                        break
                    if got != want:
                        o.viol("C07", "wrong_result", "result differs from the complete-database result", call=kind, key=k, got=got, want=want,
                               missing=sorted(Mset), retried=len(asked))
                    if len(asked) > len(Mset & {nd.hash for nd in allowed}):
                        o.viol("C07", "retry_too_long", "more retries than absent nodes on the path", call=kind, key=k)
                    break
                if asked:  # restore the faulty db for the next call
                    for h in asked:
                        del ft.db[h]
                    o.stats["retry_len:%d" % len(asked)] += 1
            for p, want, allowed in trav:
                o.evals += 1
                self_check_traverse(o, ft, db, Mset, p, want, allowed, pos_of, lambda: ft.traverse(p), "traverse", ())
            for q, node_q, seg, want, allowed in froms:
                o.evals += 1
                self_check_traverse(o, ft, db, Mset, q + seg, want, allowed, pos_of, lambda: ft.traverse_from(node_q, seg), "traverse_from", q)
            if state_of(ft) != before:
                o.viol("C07", "failed_call_changed_state", "lookups / traversals changed the trie", call="lookups")
            if later is not None:
                # the same lookups through `with later_trie.at_root(this root)`: same answers, same truthful reports, and the trie the
                # snapshot was taken from is untouched by a lookup that failed inside the with block
                ft2 = mk({k: v for k, v in later[1].items() if k not in Mset}, later[0], None)
                before2 = state_of(ft2)
                for kind, k, _, want, allowed, _ in calls:
                    o.evals += 1
                    try:
                        with ft2.at_root(root) as s:
                            got = s.get(k) if kind == "get" else s.exists(k)
                        if got != want:
                            o.viol("C07", "wrong_result", "a lookup through an at_root snapshot differs from the complete-database result", call=kind, key=k,
                                   via="at_root", missing=sorted(Mset))
                            break
                    except MissingTrieNode as e:
                        check_exc(e, kind, k, Mset, ft2.db, {nd.hash for nd in allowed}, lambda h: pos_of.get(h, ()), root)
                    except Exception as e:  # noqa
                        o.viol("C07", "other_exception", f"{kind} through an at_root snapshot raised {type(e).__name__} with node bodies absent", call=kind,
                               key=k, via="at_root", exc=repr(e)[:160])
                        break
                    if state_of(ft2) != before2:
                        o.viol("C07", "failed_call_changed_state", "a lookup inside `with trie.at_root(old_root)` changed the trie the snapshot was taken from",
                               call=kind, key=k, via="at_root", later_op=later[2])
                        break
            # ---------------- mutations: fresh faulty trie per call, direct and inside a batch
            for op, allowed in muts:
                for in_batch in (False, True, 2):
                    want = mut_complete[op]
                    pre_op = None
                    if in_batch == 2:
                        # the failing call is the SECOND operation of a batch: the batch already holds buffered writes
                        if op[0] == "clr" or (op[0] == "set" and op[2] != vals[1]):
                            continue
                        allowed, want, pre_op = second_in_batch[op]
                    o.evals += 1
                    ft = mk(dict(fdb0), root, rc)
                    k = op[1]
                    asked = []
                    ok = mutate_with_retry(o, ft, op, in_batch, db, Mset, set(allowed), asked, check_exc, root, pre_op)
                    if not ok:
                        continue
                    if asked:
                        o.nontrivial += 1
                        o.stats["mut_retry_len:%d" % len(asked)] += 1
                    if len(asked) > len(Mset & set(allowed)):
                        o.viol("C07", "retry_too_long", "more retries than absent nodes on the path", call=op[0], key=k)
                    got = state_of(ft)
                    if got[0] != want[0]:
                        o.viol("C07", "wrong_result", "root after the mutation differs from the complete-database result", call=op[0], key=k,
                               in_batch=in_batch, missing=sorted(Mset))
                        continue
                    for kk, vv in got[1].items():
                        if want[1].get(kk) != vv and not (rc is None and kk in db):
                            o.viol("C07", "wrong_result_db", "database after the mutation holds an entry the complete run does not", call=op[0], key=k,
                                   in_batch=in_batch, entry=kk)
                            break
                    # what must be there: pruning -> exactly the complete run's db; non-pruning -> the closure of the new
                    # root (a direct op may also leave nodes that it created and superseded within the same call)
                    need = want[1] if rc is not None else mpt.closure(want[1], want[0])[0]
                    for kk in need:
                        if kk not in got[1] and kk not in Mset:
                            o.viol("C07", "wrong_result_db", "database after the mutation lacks an entry of the complete run", call=op[0], key=k,
                                   in_batch=in_batch, entry=kk)
                            break
                    if rc is not None and got[2] != want[2]:
                        o.viol("C07", "wrong_result_refcount", "reference counts after the mutation differ from the complete run", call=op[0], key=k)
        if not o.samples:
            o.samples.append(dict(hashed_nodes=n, subsets=len(subsets), calls=len(calls) + len(trav) + len(froms) + 2 * len(muts)))
        return o

    return fn


def self_check_traverse(o, ft, db, Mset, p, want, allowed, pos_of, call, kind, q):
    asked = []
    allowed_h = {nd.hash for nd in allowed}
    while True:
        try:
            got = trav_result(call)
        except MissingTraversalNode as e:
            if not asked:
                o.nontrivial += 1
            h = bytes(e.missing_node_hash)
            if h not in Mset or h in ft.db:
                o.viol("C07", "missing_hash_not_absent", "the reported hash is not one of the absent node bodies", call=kind, key=p, reported=h)
                break
            if h not in allowed_h:
                o.viol("C07", "missing_hash_off_path", "the reported hash does not lie on the requested path", call=kind, key=p, reported=h)
                break
            wantpos = {pp[len(q):] for pp in pos_of.get(h, ()) if pp[: len(q)] == q and tuple(p[: len(pp)]) == pp}
            if tuple(e.nibbles_traversed) not in wantpos:
                o.viol("C07", "missing_wrong_prefix", "MissingTraversalNode.nibbles_traversed is not the path from the start node to the missing node",
                       call=kind, key=p, prefix=tuple(e.nibbles_traversed), want=sorted(wantpos))
            if h in asked or len(asked) > len(Mset):
                o.viol("C07", "retry_asks_twice", "the retry loop was asked for the same node twice", call=kind, key=p)
                break
            asked.append(h)
            ft.db[h] = db[h]
            continue
        except Exception as e:  # noqa
            o.viol("C07", "other_exception", f"{kind} raised {type(e).__name__} with node bodies absent", call=kind, key=p, exc=repr(e)[:160])
            break
        if got != want:
            o.viol("C07", "wrong_result", "traversal result differs from the complete-database result", call=kind, key=p, missing=sorted(Mset))
        if len(asked) > len(Mset & allowed_h):
            o.viol("C07", "retry_too_long", "more retries than absent nodes on the path", call=kind, key=p)
        break
    for h in asked:
        del ft.db[h]


def mutate_with_retry(o, ft, op, in_batch, db, Mset, allowed, asked, check_exc, root, pre_op=None):
    k = op[1]
    if not in_batch:
        while True:
            before = state_of(ft)
            try:
                apply_op(ft, {}, op)
                return True
            except MissingTrieNode as e:
                if state_of(ft) != before:
                    o.viol("C07", "failed_call_changed_state", "a failed mutation changed root, database, reference counts or left pending prunes",
                           call=op[0], key=k, in_batch=False)
                    return False
                h = check_exc(e, op[0], k, Mset, ft.db, allowed, None, root)
                if h is None:
                    return False
                if h in asked or len(asked) > len(Mset):
                    o.viol("C07", "retry_asks_twice", "the retry loop was asked for the same node twice", call=op[0], key=k)
                    return False
                asked.append(h)
                ft.db[h] = db[h]
            except Exception as e:  # noqa
                o.viol("C07", "other_exception", f"{op[0]} raised {type(e).__name__} with node bodies absent", call=op[0], key=k, exc=repr(e)[:160])
                return False
    outer_before = state_of(ft)
    # abort probe: the same operations in a batch whose failure (or a deliberate abort) escapes the `with`:
    # the outer trie -- root, database, reference counts, pending prunes -- must be exactly as before
    try:
        with ft.squash_changes() as b:
            if pre_op is not None:
                apply_op(b, {}, pre_op)
            apply_op(b, {}, op)
            raise _Abort()
    except (MissingTrieNode, _Abort):
        if state_of(ft) != outer_before:
            o.viol("C07", "failed_call_changed_state", "a batch left by an exception (MissingTrieNode or an abort after its operations) changed the outer trie's root, "
                   "database, reference counts or pending prunes", call=op[0], key=k, in_batch=True, pre_op=list(pre_op) if pre_op else None)
            return False
    except Exception as e:  # noqa
        o.viol("C07", "other_exception", f"aborted batch with {op[0]} raised {type(e).__name__} with node bodies absent", call=op[0], key=k, exc=repr(e)[:160])
        return False
    outer_fixed = outer_before[0:1] + outer_before[2:]  # root, reference counts, pending prunes: fixed until the batch commits
    try:
        with ft.squash_changes() as b:
            while pre_op is not None:
                # a successful first operation of the batch (nodes it needs are supplied without checks)
                try:
                    apply_op(b, {}, pre_op)
                    outer_before = state_of(ft)
                    if outer_before[0:1] + outer_before[2:] != outer_fixed:
                        o.viol("C07", "failed_call_changed_state", "an operation inside squash_changes changed the outer trie's root, reference counts or pending prunes "
                               "before the batch was committed", call=pre_op[0], key=pre_op[1], in_batch=True)
                        raise _Stop()
                    break
                except MissingTrieNode as e:
                    h = bytes(e.missing_node_hash)
                    if h not in db or h in ft.db:
                        o.viol("C07", "missing_hash_not_absent", "the reported hash is not one of the absent node bodies", call=pre_op[0], key=pre_op[1], reported=h)
                        raise _Stop()
                    ft.db[h] = db[h]
            while True:
                bb = (b.root_hash, dict(b.db.cache), {kk: vv for kk, vv in b.ref_count.items() if vv}, getattr(b, "_pending_prune_keys", None))
                try:
                    apply_op(b, {}, op)
                    break
                except MissingTrieNode as e:
                    ba = (b.root_hash, dict(b.db.cache), {kk: vv for kk, vv in b.ref_count.items() if vv}, getattr(b, "_pending_prune_keys", None))
                    if ba != bb or state_of(ft) != outer_before:
                        o.viol("C07", "failed_call_changed_state", "a failed mutation inside squash_changes changed the batch or the outer trie",
                               call=op[0], key=k, in_batch=True)
                        raise _Stop()
                    h = check_exc(e, op[0], k, Mset, ft.db, allowed, None, b.root_hash)
                    if h is None:
                        raise _Stop()
                    if h in asked or len(asked) > len(Mset):
                        o.viol("C07", "retry_asks_twice", "the retry loop was asked for the same node twice", call=op[0], key=k)
                        raise _Stop()
                    asked.append(h)
                    ft.db[h] = db[h]
                    outer_before = state_of(ft)
        return True
    except _Stop:
        return False
    except Exception as e:  # noqa
        o.viol("C07", "other_exception", f"batched {op[0]} raised {type(e).__name__} with node bodies absent", call=op[0], key=k, exc=repr(e)[:160])
        return False


class _Stop(Exception):
    pass


class _Abort(Exception):
    pass


def run(tier, seed):
    rep = Report("C07", tier, seed, "fault_enumeration")
    rep.rule = ("states = every trie of a closure BFS, prune off and on; faults = every non-empty subset of the hashed node bodies (all subsets "
                "when the trie has <= 6 hashed nodes, subsets of size <= 2 (quick) / 3 (thorough) above); calls = get/exists for every probe, "
                "set(S|L)/delete/set-empty for every universe key directly and inside squash_changes, traverse for every node position / "
                "position inside a leaf or extension / one nibble off, traverse_from from every node position; each failing call is driven "
                "through the retry loop; non-trivial = a (state, subset, call) whose first attempt raised Missing*")
    rep.assumptions = ["absent bodies surface as KeyError from a dict-like db", "alphabet of DESIGN §4"]
    fn = make_fn(tier, big_size=3 if tier == "thorough" else 2)
    uni = "H6b" if tier == "thorough" else "H5"
    for prune in (False, True):
        sysm, states = hex_states(rep, f"{uni}xSL prune={prune}", universe=uni, values=("S", "L"), prune=prune)
        per_state(rep, f"{uni}xSL prune={prune} missing-node subsets", sysm, states, fn)
    return rep


def replay(doc):
    return replay_per_state(doc, make_fn(doc.get("tier", "quick"), big_size=3 if doc.get("tier") == "thorough" else 2))
