"""C14 — SparseMerkleTree is a fixed-depth map whose root and branches always verify (DESIGN §5 C14)."""
from ..engine import explore, pmap, replay_doc
from ..report import Report
from ..smtsys import SmtSys


def plans(tier):
    out = [dict(key_size=1, default=b"", keys=("00", "01", "80", "81", "40"), values=("a", "bb", ""), forms=("m", "i")),
           dict(key_size=1, default=b"", keys=("00", "01", "81", "c0"), values=("a", "x64", "h32")),
           dict(key_size=1, default=b"\x07", keys=("00", "01", "81", "40"), values=("a", "bb"), chain=3),
           dict(key_size=1, default=b"\x07", keys=("00", "01", "80", "81"), values=("a", "bb", ""), forms=("m",))]
    sizes = range(2, 33)
    for n in sizes:
        hi = "80" + "00" * (n - 1)
        lo = "00" * (n - 1) + "01"
        mid = "00" * (n // 2) + "10" + "00" * (n - n // 2 - 1)
        for d in ((b"",) if tier != "thorough" else (b"", b"\x07")):
            out.append(dict(key_size=n, default=d, keys=(hi, lo, mid), values=("a", "bb"), probes=("ff" * n,)))
    if tier == "thorough":
        out.append(dict(key_size=2, default=b"", keys=("0000", "0001", "0100", "8000", "8001"), values=("a", "bb", ""), probes=("ffff",)))
        out.append(dict(key_size=1, default=b"\x07", keys=("00", "01", "80", "81", "40"), values=("a", "bb", "", "\x07"), forms=("m", "i")))
        out.append(dict(key_size=1, default=b"", keys=("00", "01", "02", "03", "80", "c0", "ff"), values=("a", "bb")))
    return out


def run(tier, seed):
    rep = Report("C14", tier, seed, "model_checking")
    rep.rule = ("closure BFS per (key size, default) over set(k, v) / delete(k) (method and item syntax) for every key and value of the universe; "
                "after every transition: root == full-depth Merkle root computed declaratively from the contents, returned tuple == path hashes "
                "root-to-leaf, db append-only; in every state, through the tree and through from_db: get / [] / exists / in per key (blank value "
                "reads as absent), branch(k) == oracle sibling list, calc_root(k, value, branch) == root; cleared tree has the initial root")
    rep.assumptions = ["key universes of DESIGN §4; states are restored with from_db (itself checked; replay validation rebuilds every state on a live tree)",
                       "oracle mcx/ref/smt.py"]
    ps = plans(tier)
    big = [kw for kw in ps if len(kw["keys"]) > 3]
    small = [kw for kw in ps if len(kw["keys"]) <= 3]
    for kw in big:
        sysm = SmtSys(seed=seed, **kw)
        res = explore(sysm, state_cap=300000)
        rep.add_bfs(_name(kw), res, sysm, keep_samples=1)

    def one(kw):
        return explore(SmtSys(seed=seed, **kw), state_cap=300000, workers=1)

    for i, (kw, res) in enumerate(zip(small, pmap(one, [(kw,) for kw in small]))):
        rep.add_bfs(_name(kw), res, SmtSys(seed=seed, **kw), keep_samples=1 if i < 1 else 0)
    from ..scale import smt_scale
    for d in (b"", b"\x07"):
        if d == b"":
            continue  # (with a blank default some probe values read as absent; the non-blank default exercises every read)
        viols, evals = smt_scale(d)
        for v in viols:
            v = dict(v)
            v["hist"] = []
            rep.add_violation(v, dict(system="scale", kwargs=dict(default=d.hex())))
        rep.add_part(name="scale probe: 400 writes / deletes on one live tree (8 keys, equal values under several keys)", evaluations=evals)
    return rep


def _name(kw):
    return f"size={kw['key_size']} default={kw['default'].hex() or 'blank'} keys={len(kw['keys'])}"


def replay_smt(doc):
    if doc["system"].get("system") == "scale":
        from ..scale import smt_scale
        viols, _ = smt_scale(bytes.fromhex(doc["system"]["kwargs"]["default"]))
        print("re-ran the scale probe; failing checks:", sorted({v["check"] for v in viols}))
        return doc["check"] in {v["check"] for v in viols}
    return replay_doc(lambda: SmtSys.from_kwargs(doc["system"]["kwargs"]), doc)


replay = replay_smt
