"""C17 — ScratchDB buffers a batch and commits it atomically or not at all (DESIGN §5 C17)."""
from ..engine import explore, replay_doc
from ..report import Report
from ..scratchsys import ScratchSys


def run(tier, seed):
    rep = Report("C17", tier, seed, "model_checking")
    rep.rule = ("closure BFS over (wrapped contents, buffer, do_deletes, open?) from every initial wrapped content; events inside the block: "
                "s[k]=v, del s[k], normal exit, exit by exception (at every position, since both exits are enabled in every open state); in every "
                "open state: reads / membership / copy() against the two-dict model, no wrapped mutation while open, no side effect of reads; "
                "on exit: last-write-wins commit with deletes iff requested / wrapped untouched and the same exception re-raised; buffer empty")
    rep.assumptions = ["3 keys x 2 values; dict-like wrapped db", "copy(): only the unambiguous part is checked (a deleted key that exists underneath may or may not be listed)"]
    plans = [dict(keys=("k1", "k2", "k3"), values=("x", "y"))]
    if tier == "thorough":
        plans.append(dict(keys=("k1", "k2", "k3", "k4"), values=("x", "y")))
    for kw in plans:
        sysm = ScratchSys(seed=seed, **kw)
        res = explore(sysm, state_cap=500000)
        rep.add_bfs(f"{len(kw['keys'])} keys x {len(kw['values'])} values, all initial contents", res, sysm)
    return rep


def replay(doc):
    kw = doc["system"]["kwargs"]
    return replay_doc(lambda: ScratchSys(keys=tuple(kw["keys"]), values=tuple(kw["values"]), seed=kw["seed"]), doc)
