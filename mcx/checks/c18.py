"""C18 — invalid arguments are rejected up front and change nothing (DESIGN §5 C18).

States come from small closure BFSs; in every state the full matrix (entry point x
ill-formed argument) is called; each call must raise the exception the property names
and be a self-loop on the canonical state.
"""
import collections

from eth_utils import ValidationError as EthValidationError
from trie import BinaryTrie, HexaryTrie
from trie.branches import check_if_branch_exist, get_branch, get_witness_for_key_prefix, if_branch_valid
from trie.exceptions import ValidationError as TrieValidationError
from trie.fog import HexaryTrieFog
from trie.smt import SparseMerkleProof, SparseMerkleTree, calc_root
from trie.typing import Nibbles

from .. import binsys, fogsys, hexsys, smtsys
from ..engine import explore, jsonable, pmap
from ..report import Report

VE = (TrieValidationError, EthValidationError)
NIB = (TypeError, ValueError)


def bad_bytes(key=None):
    out = [("str", "ab"), ("int", 5), ("none", None), ("bytearray", bytearray(b"ab")), ("list", [1, 2]), ("memoryview", memoryview(b"ab"))]
    if key is not None:
        # ill-typed objects that compare EQUAL to a valid key (bytearray(K) == K): refused all the same
        out += [("bytearray_of_a_valid_key", bytearray(key)), ("memoryview_of_a_valid_key", memoryview(key)), ("list_of_a_valid_key", list(key)),
                ("tuple_of_a_valid_key", tuple(key))]
    return out


def bad_nibbles():
    return [("str", "F"), ("int", 5), ("none", None), ("sixteen", (16,)), ("negative", (-1,)), ("char", ("a",)), ("nested", ((1,),))]


class Acc:
    def __init__(self):
        self.evals = 0
        self.ok = 0
        self.viols = []
        self.stats = collections.Counter()

    def call(self, name, thunk, expected, state_fn, family, prime=None):
        self.evals += 1
        if prime is not None:
            try:
                prime()  # a valid call on the same object right before the ill-formed one
            except KeyError:
                pass
        before = state_fn()
        try:
            r = thunk()
        except expected:
            self.ok += 1
            self.stats["refused:" + family] += 1
        except Exception as e:  # noqa
            self.bad("wrong_exception", f"{name} raised {type(e).__name__} instead of {'/'.join(c.__name__ for c in expected)}", call=name, kind=family)
        else:
            self.bad("invalid_argument_accepted", f"{name} accepted an ill-formed argument (returned {r!r:.60})", call=name, kind=family)
        after = state_fn()
        if after != before:
            self.bad("rejected_call_changed_state", f"{name} was refused but changed root, database, reference counts or other state", call=name, kind=family)

    def bad(self, check, msg, **detail):
        self.stats["violations"] += 1
        if len(self.viols) < 4:
            sig = dict(check=check, call=detail.get("call"))
            self.viols.append(dict(prop="C18", check=check, sig=sig, msg=msg, detail=jsonable(detail)))


# ------------------------------------------------------------------------------------------------ hexary
def hexary_calls(acc, t, state_fn, key, where):
    prime = lambda: (t.get(key), t.exists(key))  # noqa
    for tag, b in bad_bytes(key):
        for name, th in ((f"get({tag})", lambda b=b: t.get(b)), (f"[{tag}]", lambda b=b: t[b]), (f"exists({tag})", lambda b=b: t.exists(b)),
                         (f"{tag} in trie", lambda b=b: b in t), (f"set({tag}, v)", lambda b=b: t.set(b, b"v")),
                         (f"[{tag}]=v", lambda b=b: t.__setitem__(b, b"v")), (f"delete({tag})", lambda b=b: t.delete(b)),
                         (f"del [{tag}]", lambda b=b: t.__delitem__(b)), (f"get_proof({tag})", lambda b=b: t.get_proof(b)),
                         (f"set(k, {tag})", lambda b=b: t.set(key, b)), (f"[k]={tag}", lambda b=b: t.__setitem__(key, b))):
            acc.call(f"HexaryTrie{where}.{name}", th, VE, state_fn, "hexary_bytes", prime)
        acc.call(f"HexaryTrie(db, root={tag})", lambda b=b: HexaryTrie({}, b), VE, state_fn, "hexary_root")
        acc.call(f"HexaryTrie.get_from_proof(root, {tag}, proof)", lambda b=b: HexaryTrie.get_from_proof(t.root_hash, b, []), VE, state_fn, "hexary_bytes")
        acc.call(f"HexaryTrie.get_from_proof({tag}, key, proof)", lambda b=b: HexaryTrie.get_from_proof(b, key, []), VE, state_fn, "hexary_root")
        if not t.is_pruning:
            def at(b=b):
                with t.at_root(b) as s:
                    return s
            acc.call(f"HexaryTrie{where}.at_root({tag})", at, VE, state_fn, "hexary_root")
    if t.is_pruning:
        def at2():
            with t.at_root(t.root_hash) as s:
                return s
        acc.call(f"pruning HexaryTrie{where}.at_root(root)", at2, VE, state_fn, "at_root_pruning")
    else:
        acc.call("HexaryTrie(db, prune=False, ref_count=...)", lambda: HexaryTrie({}, prune=False, ref_count=collections.defaultdict(int)),
                 (ValueError,), state_fn, "ref_count_nonpruning")
    root_node = t.root_node
    for tag, nb in bad_nibbles():
        acc.call(f"HexaryTrie{where}.traverse({tag})", lambda nb=nb: t.traverse(nb), NIB, state_fn, "nibbles")
        acc.call(f"HexaryTrie{where}.traverse_from(root_node, {tag})", lambda nb=nb: t.traverse_from(root_node, nb), NIB, state_fn, "nibbles")
        acc.call(f"HexaryTrie{where}.traverse(Nibbles(()) + {tag})", lambda nb=nb: t.traverse(Nibbles(()) + nb), NIB, state_fn, "nibbles")


def hexary_state(t):
    rc = None if not t.is_pruning else sorted((k, v) for k, v in t.ref_count.items() if v)
    return (t.root_hash, sorted(t.db.items()), rc, getattr(t, "_pending_prune_keys", None))


def work_hexary(snap, model, keys):
    acc = Acc()
    t = hexsys.restore(snap, logdict=False)
    hexary_calls(acc, t, lambda: hexary_state(t), keys[1], "")
    # inside an open batch, on the batch trie
    t2 = hexsys.restore(snap, logdict=False)
    with t2.squash_changes() as b:
        b.set(keys[1], b"inbatch")

        def st():
            return (b.root_hash, sorted((k, repr(v)) for k, v in b.db.cache.items()), sorted((k, v) for k, v in b.ref_count.items() if v),
                    getattr(b, "_pending_prune_keys", None), hexary_state(t2))
        hexary_calls(acc, b, st, keys[2], "[batch]")
    return acc.evals, acc.ok, acc.viols, dict(acc.stats)


# ------------------------------------------------------------------------------------------------ binary + branch helpers
def work_binary(snap, model, keys):
    acc = Acc()
    t = binsys.restore(snap, logdict=False)
    key = keys[0]

    def st():
        return (t.root_hash, sorted(t.db.items()))
    prime = lambda: (t.get(key), t.exists(key))  # noqa
    for tag, b in bad_bytes(key):
        for name, th in ((f"get({tag})", lambda b=b: t.get(b)), (f"[{tag}]", lambda b=b: t[b]), (f"exists({tag})", lambda b=b: t.exists(b)),
                         (f"{tag} in trie", lambda b=b: b in t), (f"set({tag}, v)", lambda b=b: t.set(b, b"v")),
                         (f"[{tag}]=v", lambda b=b: t.__setitem__(b, b"v")), (f"delete({tag})", lambda b=b: t.delete(b)),
                         (f"del [{tag}]", lambda b=b: t.__delitem__(b)), (f"delete_subtrie({tag})", lambda b=b: t.delete_subtrie(b)),
                         (f"set(k, {tag})", lambda b=b: t.set(key, b)), (f"[k]={tag}", lambda b=b: t.__setitem__(key, b))):
            acc.call(f"BinaryTrie.{name}", th, VE, st, "binary_bytes", prime)
        acc.call(f"BinaryTrie(db, root={tag})", lambda b=b: BinaryTrie({}, b), VE, st, "binary_root")
        acc.call(f"check_if_branch_exist(db, root, {tag})", lambda b=b: check_if_branch_exist(t.db, t.root_hash, b), VE, st, "branch_helpers")
        acc.call(f"get_branch(db, root, {tag})", lambda b=b: get_branch(t.db, t.root_hash, b), VE, st, "branch_helpers")
        acc.call(f"get_witness_for_key_prefix(db, root, {tag})", lambda b=b: get_witness_for_key_prefix(t.db, t.root_hash, b), VE, st, "branch_helpers")
        acc.call(f"if_branch_valid(branch, root, {tag}, value)", lambda b=b: if_branch_valid([b"\x02v"], t.root_hash, b, b"v"), VE, st, "branch_helpers")
        acc.call(f"if_branch_valid(branch, root, {tag}, None)", lambda b=b: if_branch_valid([b"\x02v"], t.root_hash, b, None), VE, st, "branch_helpers")
    for ty in (3, 4, 0x7F, 0xFF):
        acc.call(f"if_branch_valid([node with type byte {ty}], ...)", lambda ty=ty: if_branch_valid([bytes([ty]) + b"\x00" * 64], t.root_hash, key, b"v"),
                 VE, st, "branch_node_type")
    return acc.evals, acc.ok, acc.viols, dict(acc.stats)


# ------------------------------------------------------------------------------------------------ sparse merkle tree, calc_root, proof
def work_smt(snap, model, sysm_kw):
    acc = Acc()
    sysm = smtsys.SmtSys.from_kwargs(sysm_kw)
    t, _ = sysm.restore(snap)
    n = sysm.key_size
    key = sysm.keys[0]
    good_branch = tuple(b"\x00" * 32 for _ in range(8 * n))

    caller_db = {}  # a database handed to from_db by the caller: a refused call must not have touched it

    def st():
        return (t.root_hash, sorted(t.db.items()), sorted(caller_db.items()))

    def prime():
        return (t.get(key), t.branch(key), t.exists(key))
    badkeys = bad_bytes(key) + [("empty", b""), ("too_long", b"\x00" * (n + 1))] + ([("too_short", b"\x00" * (n - 1))] if n > 1 else [])
    for tag, b in badkeys:
        for name, th in ((f"get({tag})", lambda b=b: t.get(b)), (f"[{tag}]", lambda b=b: t[b]), (f"exists({tag})", lambda b=b: t.exists(b)),
                         (f"{tag} in tree", lambda b=b: b in t), (f"set({tag}, v)", lambda b=b: t.set(b, b"v")),
                         (f"[{tag}]=v", lambda b=b: t.__setitem__(b, b"v")), (f"delete({tag})", lambda b=b: t.delete(b)),
                         (f"del [{tag}]", lambda b=b: t.__delitem__(b)), (f"branch({tag})", lambda b=b: t.branch(b))):
            acc.call(f"SparseMerkleTree.{name}", th, VE, st, "smt_key", prime)
    for tag, b in bad_bytes():
        acc.call(f"SparseMerkleTree.set(k, {tag})", lambda b=b: t.set(key, b), VE, st, "smt_value")
        acc.call(f"SparseMerkleTree[k]={tag}", lambda b=b: t.__setitem__(key, b), VE, st, "smt_value")
        acc.call(f"SparseMerkleTree.from_db(db, {tag})", lambda b=b: SparseMerkleTree.from_db(dict(t.db), b, key_size=n), VE, st, "smt_root")
        acc.call(f"SparseMerkleTree.from_db(empty db, {tag})", lambda b=b: SparseMerkleTree.from_db(caller_db, b, key_size=n, default=b"\x09"), VE, st, "smt_root")
        acc.call(f"calc_root({tag}, v, branch)", lambda b=b: calc_root(b, b"v", good_branch), VE, st, "calc_root")
        acc.call(f"calc_root(k, {tag}, branch)", lambda b=b: calc_root(key, b, good_branch), VE, st, "calc_root")
        acc.call(f"SparseMerkleProof({tag}, v, branch)", lambda b=b: SparseMerkleProof(b, b"v", good_branch), VE, st, "proof_ctor")
        acc.call(f"SparseMerkleProof(k, {tag}, branch)", lambda b=b: SparseMerkleProof(key, b, good_branch), VE, st, "proof_ctor")
    for tag, r in (("31 bytes", b"\x00" * 31), ("33 bytes", b"\x00" * 33), ("empty", b"")):
        acc.call(f"SparseMerkleTree.from_db(db, root of {tag})", lambda r=r: SparseMerkleTree.from_db(dict(t.db), r, key_size=n), VE, st, "smt_root")
        acc.call(f"SparseMerkleTree.from_db(empty db, root of {tag})", lambda r=r: SparseMerkleTree.from_db(caller_db, r, key_size=n, default=b"\x09"), VE, st, "smt_root")
    for tag, br in (("too short", good_branch[:-1]), ("too long", good_branch + (b"\x00" * 32,)), ("empty", ())):
        acc.call(f"calc_root(k, v, branch {tag})", lambda br=br: calc_root(key, b"v", br), VE, st, "calc_root")
        acc.call(f"SparseMerkleProof(k, v, branch {tag})", lambda br=br: SparseMerkleProof(key, b"v", br), VE, st, "proof_ctor")
    for ks in (0, 33, -1, 100):
        acc.call(f"SparseMerkleTree(key_size={ks})", lambda ks=ks: SparseMerkleTree(key_size=ks), VE, st, "smt_key_size")
        acc.call(f"SparseMerkleTree.from_db(..., key_size={ks})", lambda ks=ks: SparseMerkleTree.from_db(caller_db, t.root_hash, key_size=ks), VE, st, "smt_key_size")
    # a live proof: update with an ill-typed / ill-sized key leaves it unchanged
    p = SparseMerkleProof(key, b"v", good_branch)

    def pst():
        return (p.key, p.value, tuple(p.branch))
    for tag, b in badkeys:
        acc.call(f"SparseMerkleProof.update({tag}, v, hashes)", lambda b=b: p.update(b, b"w", good_branch), VE, pst, "proof_update")
    # an update list of the wrong size: shorter than the first differing bit requires (every such length, every differing bit)
    kint = int.from_bytes(key, "big")
    for bit in range(8 * n):
        other = (kint ^ (1 << bit)).to_bytes(n, "big")
        need = 8 * n - bit  # hashes down to the first differing bit, counted from the root
        for length in sorted({0, need - 2, need - 1} - {-1, -2}):
            if 0 <= length < need:
                acc.call(f"SparseMerkleProof.update(key differing at bit {bit}, v, {length} hashes where {need} are needed)",
                         lambda other=other, length=length: p.update(other, b"w", good_branch[:length]), VE, pst, "proof_update_length")
    return acc.evals, acc.ok, acc.viols, dict(acc.stats)


# ------------------------------------------------------------------------------------------------ fog and Nibbles
def work_fog(snap, model, _):
    acc = Acc()
    f = fogsys.build(snap)

    def st():
        return fogsys.members(f)
    for tag, nb in bad_nibbles():
        acc.call(f"Nibbles({tag})", lambda nb=nb: Nibbles(nb), NIB, st, "nibbles")
        # the walking idiom: a validated prefix extended by a raw segment must be validated again
        acc.call(f"Nibbles((1,)) + {tag}", lambda nb=nb: Nibbles((1,)) + nb, NIB, st, "nibbles")
        acc.call(f"Nibbles(()) + {tag}", lambda nb=nb: Nibbles(()) + nb, NIB, st, "nibbles")
        acc.call(f"fog.nearest_unknown(Nibbles(()) + {tag})", lambda nb=nb: f.nearest_unknown(Nibbles(()) + nb), NIB, st, "fog")
        acc.call(f"fog.explore({tag}, ())", lambda nb=nb: f.explore(nb, ()), NIB, st, "fog")
        acc.call(f"fog.mark_all_complete([{tag}])", lambda nb=nb: f.mark_all_complete([nb]), NIB, st, "fog")
        acc.call(f"fog.nearest_unknown({tag})", lambda nb=nb: f.nearest_unknown(nb), NIB, st, "fog")
        acc.call(f"fog.nearest_right({tag})", lambda nb=nb: f.nearest_right(nb), NIB, st, "fog")
        if snap:
            acc.call(f"fog.explore(member, [{tag}])", lambda nb=nb: f.explore(snap[0], [nb]), NIB, st, "fog")
    # a serialised fog whose packed prefix carries the leaf flag decodes to a nibble sequence containing 16: a malformed
    # nibble sequence, to be refused like any other (other kinds of garbage handed to deserialize are outside the property)
    for tag, blob in (("leaf-flagged prefix (decodes to nibble 16)", b"HexaryTrieFog:[b' \x12']"), ("odd leaf-flagged prefix", b"HexaryTrieFog:[b'1']")):
        acc.call(f"HexaryTrieFog.deserialize({tag})", lambda blob=blob: HexaryTrieFog.deserialize(blob), NIB, st, "fog_deserialize")
    return acc.evals, acc.ok, acc.viols, dict(acc.stats)


def run(tier, seed):
    rep = Report("C18", tier, seed, "exploration")
    rep.rule = ("states of small closure BFSs (HexaryTrie prune off/on and inside an open batch, BinaryTrie, SparseMerkleTree sizes 1 and 2 with a live "
                "proof, HexaryTrieFog) x the full matrix entry point x ill-formed argument (str, int, None, bytearray, list, memoryview; wrong-length "
                "key / branch / root; key sizes 0, 33, -1, 100; at_root on a pruning trie; ref_count on a non-pruning trie; malformed nibbles); each "
                "call must raise the named exception and leave the canonical state equal; non-trivial = a (state, call) pair refused as named")
    rep.assumptions = ["distributive reading of the statement (DESIGN §5 C18): each validation site the property anchors, not a full cross product"]
    thorough = tier == "thorough"
    jobs = []
    # hexary
    for prune in (False, True):
        hs = hexsys.HexSys(universe="H3" if not thorough else "H4", values=("S", "L"), prune=prune, props=(), seed=seed)
        res = explore(hs, keep_states=True)
        rep.add_bfs(f"HexaryTrie H3xSL prune={prune} [state set]", res, hs, keep_samples=0)
        keys = hs.keys
        jobs += [("hexary", work_hexary, (snap, model, keys), hist, hs.describe()) for snap, model, hist in res.state_list]
    bs = binsys.BinSys(universe="B6" if thorough else "B6", values=("a", "bb"), props=(), seed=seed)
    res = explore(bs, keep_states=True)
    rep.add_bfs("BinaryTrie B6 [state set]", res, bs, keep_samples=0)
    states = res.state_list if thorough else res.state_list[:: max(1, len(res.state_list) // 60)]
    jobs += [("binary", work_binary, (snap, model, bs.keys), hist, bs.describe()) for snap, model, hist in states]
    for n, keys in ((1, ("00", "81")), (2, ("0000", "8001"))):
        ss = smtsys.SmtSys(key_size=n, keys=keys, values=("a", "bb"), props=(), seed=seed, probes=())
        res = explore(ss, keep_states=True)
        rep.add_bfs(f"SparseMerkleTree size {n} [state set]", res, ss, keep_samples=0)
        jobs += [("smt", work_smt, (snap, model, ss.kw), hist, ss.describe()) for snap, model, hist in res.state_list]
    fs = fogsys.FogSys(nibbles=(0, 15), depth=2, seed=seed, mark_sizes=1)
    res = explore(fs, keep_states=True)
    rep.add_bfs("HexaryTrieFog {0,f} depth 2 [state set]", res, fs, keep_samples=0)
    jobs += [("fog", work_fog, (snap, None, None), hist, fs.describe()) for snap, model, hist in res.state_list]

    def run_job(i):
        fam, fn, args, hist, desc = jobs[i]
        return fn(*args)

    by_family = collections.Counter()
    stats = collections.Counter()
    for (fam, fn, args, hist, desc), (evals, ok, viols, st) in zip(jobs, pmap(run_job, [(i,) for i in range(len(jobs))], chunksize=8)):
        rep.evaluations += evals
        rep.nontrivial += ok
        by_family[fam] += evals
        stats.update(st)
        for v in viols:
            v = dict(v)
            v["hist"] = hist
            v["extra"] = dict(family=fam)
            rep.add_violation(v, desc)
    rep.add_part(name="invalid-call matrix", evaluations=rep.evaluations, refused_as_named=rep.nontrivial, by_family=dict(by_family),
                 stats={k: stats[k] for k in sorted(stats)})
    rep.samples = [dict(call="HexaryTrie.set(key, 'ab')", expected="ValidationError, state unchanged"),
                   dict(call="SparseMerkleTree.get(b'') on a key-size-1 tree", expected="ValidationError, state unchanged"),
                   dict(call="HexaryTrie.traverse((16,))", expected="ValueError / TypeError, state unchanged")]
    return rep


def replay(doc):
    rep = run(doc.get("tier", "quick"), doc.get("seed", 0))
    sigs = [v.get("sig") for v, _ in rep.violations]
    print("re-ran the matrix; failing signatures:", sigs[:6])
    return doc["sig"] in sigs
