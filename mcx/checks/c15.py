"""C15 — SparseMerkleProof stays in sync from streamed updates alone (DESIGN §5 C15)."""
from ..engine import explore, pmap
from ..report import Report
from ..smtsys import SmtSys
from .c14 import replay_smt

replay = replay_smt


def hexkey(x, n):
    return x.to_bytes(n, "big").hex()


def plans(tier):
    out = []
    # size 1: a middle key tracked, neighbours at the top, bottom, a middle bit and a multi-bit difference
    for t in ((0x40,) if tier != "thorough" else (0x40, 0x00, 0xFF)):
        ks = [t, t ^ 0x80, t ^ 0x01, t ^ 0x10, t ^ 0x11]
        out.append(dict(key_size=1, default=b"", keys=tuple(hexkey(k, 1) for k in ks), values=("a", "bb", ""), track=hexkey(t, 1), forms=("m", "i")))
    # every single differing bit position, three keys each
    for n in ((1, 2, 3, 32) if tier != "thorough" else tuple(range(1, 33))):
        t = int.from_bytes(bytes([0x5A]) * n, "big")
        allbits = range(8 * n)
        if tier != "thorough" and n > 2:
            allbits = sorted({0, 1, 7, 8, 4 * n, 8 * n - 9, 8 * n - 8, 8 * n - 1})
        for b in allbits:
            other = t ^ (1 << b)
            third = t ^ (1 << ((b + 3) % (8 * n)))
            allones = t ^ ((1 << (b + 1)) - 1)  # differs from t at bit b AND at every lower bit (e.g. the complement key)
            ks = [t, other, allones] if (n > 2 and b >= 1) else [t, other, third]
            out.append(dict(key_size=n, default=b"" if b % 2 == 0 else b"\x07", keys=tuple(hexkey(k, n) for k in ks),
                            values=(("a", "bb", "") if n <= 2 and b % 2 else ("a", "bb")) if n <= 3 else ("a",), track=hexkey(t, n), probes=(), quiet=2))
    if tier == "thorough":
        t = 0x40
        ks = [t] + [t ^ (1 << b) for b in range(8)]
        out.append(dict(key_size=1, default=b"", keys=tuple(hexkey(k, 1) for k in ks), values=("a", "bb"), track=hexkey(t, 1)))
        t = 0x5A5A
        ks = [t, t ^ 0x8000, t ^ 0x0001, t ^ 0x0100, t ^ 0x0080]
        out.append(dict(key_size=2, default=b"\x07", keys=tuple(hexkey(k, 2) for k in ks), values=("a", "bb", ""), track=hexkey(t, 2)))
    return out


def run(tier, seed):
    rep = Report("C15", tier, seed, "model_checking")
    rep.rule = ("product BFS (tree state x proof state): the proof is created from the tree's value and branch in ANY reachable state where the tracked "
                "key is readable, then fed every update (key, value, returned hashes) of every set/delete; invariant after every event: proof.value / "
                "branch / root_hash == tree (tree side computed by the oracle, the tree is never queried for the proof); every transition also "
                "tried with every truncation length 0..depth of the hash list: accepted iff it reaches the first differing bit, then in sync; "
                "otherwise ValidationError and proof unchanged; update keys differ from the tracked key at every bit position")
    rep.assumptions = ["key universes of DESIGN §4", "oracle mcx/ref/smt.py"]
    ps = plans(tier)
    big = [kw for kw in ps if len(kw["keys"]) > 3]
    small = [kw for kw in ps if len(kw["keys"]) <= 3]
    for kw in big:
        sysm = SmtSys(seed=seed, props=("C15",), **kw)
        _add(rep, kw, explore(sysm, state_cap=300000), sysm, 1)

    def one(kw):
        sysm = SmtSys(seed=seed, props=("C15",), **kw)
        return explore(sysm, state_cap=300000, workers=1)

    for i, (kw, res) in enumerate(zip(small, pmap(one, [(kw,) for kw in small]))):
        _add(rep, kw, res, SmtSys(seed=seed, props=("C15",), **kw), 1 if i < 2 else 0)
    return rep


def _add(rep, kw, res, sysm, keep):
    rep.add_bfs(f"size={kw['key_size']} track={kw['track']} keys={','.join(kw['keys'])} default={kw['default'].hex() or 'blank'}", res, sysm,
                keep_samples=keep)
    rep.cov["truncated_updates"] = rep.cov.get("truncated_updates", 0) + res.stats.get("truncations", 0)
