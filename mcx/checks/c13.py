"""C13 — binary-trie branches and witnesses are sufficient, exact and unforgeable (DESIGN §5 C13)."""
from trie import BinaryTrie
from trie.branches import check_if_branch_exist, get_branch, get_trie_nodes, get_witness_for_key_prefix, if_branch_valid
from trie.exceptions import InvalidKeyError

from ..binsys import BinSys, restore
from ..engine import explore
from ..enumerate import Out, per_state, replay_per_state
from ..ref import bintrie as bt
from ..report import Report


def validates(branch, root, key, answer):
    """True iff if_branch_valid confirms `answer`; any exception or falsy result = not confirmed"""
    try:
        return if_branch_valid(list(branch), root, key, answer) is True
    except Exception:  # noqa
        return False


def alterations(node, other_hashes):
    out = []
    p = bt.parse(node)
    if p[0] == "leaf":
        out.append(("leaf_value", b"\x02" + p[1] + b"x"))
        out.append(("leaf_value2", b"\x02" + (b"zz" if p[1] != b"zz" else b"yy")))
    elif p[0] == "branch":
        out.append(("children_swapped", b"\x01" + p[2] + p[1]))
        for h in other_hashes:
            if h != p[1]:
                out.append(("left_replaced", b"\x01" + h + p[2]))
            if h != p[2]:
                out.append(("right_replaced", b"\x01" + p[1] + h))
    else:
        path = list(p[1])
        for i in sorted({0, len(path) - 1}):
            q = list(path)
            q[i] ^= 1
            out.append(("path_bit_flipped", bt.enc_kv(q, p[2])))
        if len(path) > 1:
            out.append(("path_shortened", bt.enc_kv(path[:-1], p[2])))
        out.append(("path_extended", bt.enc_kv(path + [0], p[2])))
        for h in other_hashes:
            if h != p[2]:
                out.append(("child_replaced", bt.enc_kv(path, h)))
    return out


def fn(sysm, snap, model):
    o = Out()
    root, db = snap
    if not model:
        # the clauses that are not restricted to non-empty tries: nothing starts with any prefix, nothing is reachable (also on a
        # trie that was emptied again, whose database still holds the old nodes)
        for p in [b""] + sysm.probes:
            o.evals += 1
            try:
                if check_if_branch_exist(db, root, p) is not False:
                    o.viol("C13", "branch_exist_wrong", "check_if_branch_exist is true on a trie that stores no key", call="check_if_branch_exist", key=p,
                           got=True, want=False, model=model)
                elif tuple(get_witness_for_key_prefix(db, root, p)) != ():
                    o.viol("C13", "witness_foreign_node", "a witness of the empty trie is not empty", call="witness", key=p, model=model)
                else:
                    o.nontrivial += 1
            except Exception as e:  # noqa
                o.viol("C13", "branch_exist_raised", f"check_if_branch_exist / witness raised {type(e).__name__} on an empty trie", call="check_if_branch_exist",
                       key=p, model=model)
        o.evals += 1
        try:
            if tuple(get_trie_nodes(db, root)) != ():
                o.viol("C13", "trie_nodes_wrong", "get_trie_nodes of the blank root is not empty", call="get_trie_nodes", model=model)
        except Exception as e:  # noqa
            o.viol("C13", "trie_nodes_raised", f"get_trie_nodes raised {type(e).__name__} on the blank root", call="get_trie_nodes", model=model)
        return o
    canon_nodes = bt.nodes(model)
    encs = set(canon_nodes.values())
    hashes = sorted(canon_nodes)
    wrong_values = [b"a", b"bb", b"zz"]
    # neighbour tries (one transition away) for cross-trie branches
    neigh = {}
    for op in sysm.ops:
        t2 = restore(snap, logdict=False)
        try:
            sysm.apply(t2, op)
        except Exception:  # noqa
            continue
        if t2.root_hash != root and t2.root_hash != bt.BLANK and t2.root_hash not in neigh:
            neigh[t2.root_hash] = dict(t2.db)
    branches = {}
    for k in sysm.probes:
        truth = model.get(k)
        o.evals += 1
        try:
            B = get_branch(db, root, k)
        except InvalidKeyError:
            o.stats["get_branch:refused"] += 1
            if truth is not None or not bt.conflicts(model, k):
                o.viol("C13", "branch_wrongly_refused", "get_branch refused a key that is stored or has no prefix conflict", call="get_branch", key=k, model=model)
            continue
        except Exception as e:  # noqa
            o.viol("C13", "branch_raised", f"get_branch raised {type(e).__name__}", call="get_branch", key=k, exc=repr(e)[:160], model=model)
            continue
        branches[k] = B
        o.stats["branch_len:%d" % len(B)] += 1
        for n in B:
            if n not in encs:
                o.viol("C13", "branch_foreign_node", "get_branch yielded something that is not a node of the trie", call="get_branch", key=k)
                break
        try:
            ok = if_branch_valid(list(B), root, k, truth)
        except Exception as e:  # noqa
            ok = e
        if ok is not True:
            o.viol("C13", "branch_insufficient", "if_branch_valid does not confirm the trie's own answer from get_branch(key)", call="if_branch_valid",
                   key=k, truth=truth, result=repr(ok)[:120], model=model)
            continue
        o.nontrivial += 1
    # forgeries: no branch may validate an answer the trie does not give
    for k in sysm.probes:
        truth = model.get(k)
        wrong = [w for w in wrong_values + [None] + sorted(set(model.values())) if w != truth]
        wrong = list(dict.fromkeys(wrong))
        cands = []
        B = branches.get(k)
        if B is not None:
            cands.append(("honest", B))
            for i in range(len(B)):
                cands.append(("truncated", B[:i]))
                cands.append(("node_removed", B[:i] + B[i + 1:]))
                for name, n2 in alterations(B[i], hashes):
                    cands.append(("alt:" + name, B[:i] + (n2,) + B[i + 1:]))
                    cands.append(("alt+:" + name, B + (n2,)))
        for k2, B2 in branches.items():
            if k2 != k:
                cands.append(("other_key", B2))
        for r2, db2 in neigh.items():
            try:
                cands.append(("neighbour_trie", get_branch(db2, r2, k)))
            except Exception:  # noqa
                pass
        cands.append(("all_nodes", tuple(canon_nodes.values())))
        seen = set()
        for kind, Bx in cands:
            if Bx in seen:
                continue
            seen.add(Bx)
            for w in wrong:
                o.evals += 1
                if validates(Bx, root, k, w):
                    o.viol("C13", "forged_branch_validates", "a branch validated an answer the trie does not give", call="if_branch_valid", kind=kind,
                           key=k, claimed=w, truth=truth, branch=Bx, model=model)
                    break
                o.stats["forgery_rejected:" + kind.split(":")[0]] += 1
            else:
                o.nontrivial += 1
    # prefix existence, node enumeration, witnesses
    for p in [b""] + sysm.probes:
        o.evals += 1
        want = any(s.startswith(p) for s in model)
        try:
            got = check_if_branch_exist(db, root, p)
        except Exception as e:  # noqa
            o.viol("C13", "branch_exist_raised", f"check_if_branch_exist raised {type(e).__name__}", call="check_if_branch_exist", key=p)
            continue
        if got is not want:
            o.viol("C13", "branch_exist_wrong", "check_if_branch_exist disagrees with the stored key set", call="check_if_branch_exist", key=p, got=got,
                   want=want, model=model)
        o.stats["prefix_exists:%s" % want] += 1
    o.evals += 1
    # the same root read first through an incomplete database (the root node alone, as a proof holder has it): whatever that
    # call does, it returns no foreign node and must not influence what the complete database answers next
    try:
        part = get_trie_nodes({root: db[root]}, root) if root in db else ()
        if not set(part) <= encs:
            o.viol("C13", "trie_nodes_wrong", "get_trie_nodes over an incomplete database returned something that is not a node of the trie",
                   call="get_trie_nodes", kind="partial_db", model=model)
    except Exception:  # noqa  (an incomplete database may be refused)
        o.stats["trie_nodes_partial:raised"] += 1
    try:
        tn = get_trie_nodes(db, root)
        if set(tn) != encs:
            o.viol("C13", "trie_nodes_wrong", "get_trie_nodes does not return exactly the nodes reachable from the root", call="get_trie_nodes", model=model)
    except Exception as e:  # noqa
        o.viol("C13", "trie_nodes_raised", f"get_trie_nodes raised {type(e).__name__}", call="get_trie_nodes")
    for p in [b""] + sysm.probes:
        o.evals += 1
        try:
            W = get_witness_for_key_prefix(db, root, p)
        except InvalidKeyError:
            o.stats["witness:refused"] += 1
            if not bt.extends_stored(model, p):
                o.viol("C13", "witness_wrongly_refused", "get_witness_for_key_prefix refused a prefix that does not run past a stored key",
                       call="witness", key=p, model=model)
            continue
        except Exception as e:  # noqa
            o.viol("C13", "witness_raised", f"get_witness_for_key_prefix raised {type(e).__name__}", call="witness", key=p, exc=repr(e)[:120])
            continue
        if not set(W) <= encs:
            o.viol("C13", "witness_foreign_node", "the witness contains something that is not a node of the trie", call="witness", key=p)
            continue
        wdb = {bt.keccak(n): n for n in W}
        wt = BinaryTrie(wdb, root)
        for q in sysm.probes:
            if not q.startswith(p):
                continue
            o.evals += 1
            try:
                got = wt.get(q)
            except Exception as e:  # noqa
                o.viol("C13", "witness_insufficient", f"reading a key below the prefix from the witness alone raised {type(e).__name__}", call="witness",
                       key=p, query=q, model=model)
                break
            if got != model.get(q):
                o.viol("C13", "witness_wrong_answer", "the witness alone gives a different answer than the trie", call="witness", key=p, query=q)
                break
            o.nontrivial += 1
    # a stored value that happens to be the hash of a node of the same database (e.g. an earlier root kept as a value)
    for knew in sysm.probes:
        if knew in model or bt.conflicts(model, knew):
            continue
        t2 = restore(snap, logdict=False)
        m2 = dict(model)
        try:
            t2.set(knew, root)
        except Exception:  # noqa
            break
        m2[knew] = root
        o.evals += 1
        want2 = set(bt.nodes(m2).values())
        try:
            if set(get_trie_nodes(t2.db, t2.root_hash)) != want2:
                o.viol("C13", "trie_nodes_wrong", "get_trie_nodes does not return exactly the reachable nodes when a stored value equals a node hash",
                       call="get_trie_nodes", kind="value_is_a_node_hash", model=m2)
            elif not set(get_witness_for_key_prefix(t2.db, t2.root_hash, b"")) <= want2:
                o.viol("C13", "witness_foreign_node", "the witness contains a node that is not part of the trie (a stored value equals a node hash)",
                       call="witness", kind="value_is_a_node_hash")
            else:
                o.nontrivial += 1
        except Exception as e:  # noqa
            o.viol("C13", "trie_nodes_raised", f"get_trie_nodes raised {type(e).__name__}", call="get_trie_nodes", kind="value_is_a_node_hash")
        break
    if not o.samples:
        o.samples.append(dict(model=model, branches={k.hex(): len(b) for k, b in branches.items()}))
    return o


def factory(kw):
    for k in ("values", "props", "forms"):
        kw[k] = tuple(kw[k])
    return BinSys(**kw)


def run(tier, seed):
    rep = Report("C13", tier, seed, "fault_enumeration")
    rep.rule = ("states = every trie of the C12 closure BFS (the empty ones only for the clauses not restricted to non-empty tries); per state and probe key: get_branch refusal rule, if_branch_valid confirms the "
                "trie's answer; forgery enumeration: honest branch, every truncation, every node removed, every single-node alteration (children "
                "swapped, child hash replaced by every other node hash, leaf value changed, key-path bit flipped / shortened / extended) substituted "
                "and appended, branches of every other key, of every neighbour trie, and all nodes at once, each offered with every wrong answer; "
                "check_if_branch_exist vs key set; get_trie_nodes vs canonical node set; witnesses read alone in a fresh db; non-trivial = a forged "
                "(branch, key) all of whose wrong answers were rejected, a confirmed honest branch, a witness read")
    rep.assumptions = ["Keccak collisions assumed away", "binary universe B8 of DESIGN §4", "oracle mcx/ref/bintrie.py"]
    plans = [dict(universe="B8", values=("a", "bb")), dict(universe="BC", values=("a",)), dict(universe="BLK", values=("a", "bb")),
             dict(universe="BXL", values=("a",)), dict(universe="B6", values=("v02", "br65")), dict(universe="BRC", values=("a",))]
    if tier == "thorough":
        plans = plans + [dict(universe="B10", values=("a", "bb")), dict(universe="B4L", values=("a", "bb", "c33"))]
    for kw in plans:
        sysm = BinSys(seed=seed, props=(), **kw)
        res = explore(sysm, keep_states=True, state_cap=400000)
        rep.add_bfs(f"{kw['universe']} [state set]", res, sysm, keep_samples=1)
        per_state(rep, f"{kw['universe']} branches / witnesses", sysm, res.state_list, fn)
    return rep


def replay(doc):
    return replay_per_state(doc, fn, factory)
