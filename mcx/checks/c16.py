"""C16 — path and node encodings are exact bijections matching their specifications (DESIGN §5 C16).

Exhaustive bounded input enumeration against spec-level functions written independently
(mcx/ref/mpt.py: HP, nibbles; mcx/ref/bintrie.py: bit-path packing, node formats).
"""
import collections
import itertools

import rlp as _rlp  # only to produce the byte string "read from the database"; decode goes through trie.utils.nodes.decode_node

from trie.constants import BRANCH_TYPE, KV_TYPE, LEAF_TYPE, NODE_TYPE_BLANK, NODE_TYPE_BRANCH, NODE_TYPE_EXTENSION, NODE_TYPE_LEAF
from trie.exceptions import InvalidNode
from trie.utils.binaries import decode_from_bin, decode_to_bin_keypath, encode_from_bin_keypath, encode_to_bin
from trie.utils.nibbles import bytes_to_nibbles, decode_nibbles, encode_nibbles, nibbles_to_bytes
from trie.utils.nodes import (compute_extension_key, compute_leaf_key, decode_node, encode_branch_node, encode_kv_node, encode_leaf_node,
                              extract_key, get_node_type, is_blank_node, is_branch_node, is_extension_node, is_leaf_node, parse_node)

from ..engine import pmap, jsonable
from ..ref import bintrie as bt
from ..ref import mpt
from ..report import Report


class Acc:
    def __init__(self):
        self.evals = 0
        self.viols = []
        self.stats = collections.Counter()

    def bad(self, check, msg, **detail):
        self.stats["violations"] += 1
        if len(self.viols) < 4:
            self.viols.append(dict(prop="C16", check=check, sig=dict(check=check), msg=msg, detail=jsonable(detail), hist=[]))


def hp_chunk(alphabet, length, first):
    """all nibble sequences of the given length over alphabet whose first nibble is `first` (or the empty one)"""
    a = Acc()
    seqs = [()] if length == 0 else (((first,) + rest) for rest in itertools.product(alphabet, repeat=length - 1))
    for ns in seqs:
        for term in (False, True):
            a.evals += 1
            arg = tuple(ns) + ((16,) if term else ())
            try:
                enc = encode_nibbles(arg)
                dec = tuple(decode_nibbles(enc))
            except Exception as e:  # noqa
                a.bad("hp_raised", f"encode/decode_nibbles raised {type(e).__name__}", nibbles=ns, terminator=term)
                continue
            if enc != mpt.hp(ns, term):
                a.bad("hp_encode_wrong", "encode_nibbles differs from the Yellow Paper HP function", nibbles=ns, terminator=term, got=enc,
                      want=mpt.hp(ns, term))
            if dec != arg:
                a.bad("hp_roundtrip", "decode_nibbles(encode_nibbles(x)) != x (sequence or flag lost)", nibbles=ns, terminator=term, got=dec)
            try:
                from trie.utils.nibbles import add_nibbles_terminator, is_nibbles_terminated, remove_nibbles_terminator
                tns = tuple(ns) + (16,)
                if (tuple(add_nibbles_terminator(tuple(ns))) != tns or tuple(add_nibbles_terminator(tns)) != tns
                        or tuple(remove_nibbles_terminator(tns)) != tuple(ns) or tuple(remove_nibbles_terminator(tuple(ns))) != tuple(ns)
                        or not is_nibbles_terminated(tns) or is_nibbles_terminated(tuple(ns))):
                    a.bad("terminator_helpers_wrong", "add / remove / is_nibbles_terminated are not consistent (adding twice must add once)", nibbles=ns)
                if term and compute_leaf_key(tns) != enc:
                    a.bad("compute_key_wrong", "compute_leaf_key of an already terminated path differs from HP", nibbles=ns, terminator=True)
            except Exception as e:  # noqa
                a.bad("hp_raised", f"terminator helpers / compute_leaf_key on a terminated path raised {type(e).__name__}", nibbles=ns, terminator=term)
            # the same sequence handed over as a list (any sequence type is a nibble sequence)
            try:
                if encode_nibbles(list(arg)) != enc:
                    a.bad("hp_encode_wrong", "encode_nibbles of a list differs from the tuple form", nibbles=ns, terminator=term, form="list")
                if (compute_leaf_key(list(ns)) if term else compute_extension_key(list(ns))) != enc:
                    a.bad("compute_key_wrong", "compute_*_key of a list differs from HP", nibbles=ns, terminator=term, form="list")
            except Exception as e:  # noqa
                a.bad("hp_raised", f"encode_nibbles / compute_*_key raised {type(e).__name__} for a list input", nibbles=ns, terminator=term, form="list")
            # a node written with that path classifies and yields it back
            key = compute_leaf_key(ns) if term else compute_extension_key(ns)
            if key != enc:
                a.bad("compute_key_wrong", "compute_leaf_key / compute_extension_key differ from HP", nibbles=ns, terminator=term)
            child = b"v" if term else b"\x11" * 32
            try:
                node = decode_node(_rlp.encode([key, child]))
                t = get_node_type(node)
                ok = (t == (NODE_TYPE_LEAF if term else NODE_TYPE_EXTENSION) and bool(is_leaf_node(node)) == term
                      and bool(is_extension_node(node)) == (not term) and not is_branch_node(node) and not is_blank_node(node)
                      and tuple(extract_key(node)) == tuple(ns))
            except Exception as e:  # noqa
                a.bad("hexary_node_raised", f"classifying a stored node raised {type(e).__name__}", nibbles=ns, terminator=term)
                continue
            if not ok:
                a.bad("hexary_node_classification", "a hexary node read back does not classify as written or yields another key path", nibbles=ns,
                      terminator=term)
                continue
            # the node a traversal simulates when it stops i nibbles into that path is keyed by HP(rest of the path, same flag)
            try:
                from trie.exceptions import TraversedPartialPath
                from trie.utils.nodes import annotate_node
                ann = annotate_node(node)
                for i in range(1, len(ns) + (1 if term else 0)):
                    a.evals += 1
                    sim = TraversedPartialPath((), ann, tuple(ns[:i])).simulated_node
                    rest = tuple(ns[i:])
                    if (bytes(sim.raw[0]) != mpt.hp(rest, term) or tuple(extract_key(sim.raw)) != rest or sim.raw[1] != node[1]
                            or (term and tuple(sim.suffix) != rest) or (not term and tuple(map(tuple, sim.sub_segments)) != (rest,))):
                        a.bad("simulated_node_key_wrong", "the node simulated for a traversal that stops inside a leaf / extension path is not keyed by the "
                              "HP encoding of the rest of the path", nibbles=ns, terminator=term, consumed=i)
                        break
            except Exception as e:  # noqa
                a.bad("hexary_node_raised", f"simulating the rest of a leaf / extension path raised {type(e).__name__}", nibbles=ns, terminator=term)
    return a.evals, a.viols, dict(a.stats)


def misc(bits_max, kv_bits):
    a = Acc()
    # bytes <-> nibbles, bytes <-> bit strings: every byte string of length <= 2
    for n in range(3):
        for tup in itertools.product(range(256), repeat=n):
            b = bytes(tup)
            a.evals += 1
            try:
                ns = tuple(bytes_to_nibbles(b))
                if ns != mpt.nib(b) or nibbles_to_bytes(ns) != b:
                    a.bad("nibbles_roundtrip", "bytes_to_nibbles / nibbles_to_bytes are not mutually inverse", value=b)
                bs = encode_to_bin(b)
                if tuple(bs) != bt.bits(b) or decode_from_bin(bs) != b:
                    a.bad("bin_roundtrip", "encode_to_bin / decode_from_bin are not mutually inverse", value=b)
            except Exception as e:  # noqa
                a.bad("conversion_raised", f"byte conversion raised {type(e).__name__}", value=b)
    for n in (0, 2, 4):
        for ns in itertools.product(range(16), repeat=n):
            a.evals += 1
            try:
                if tuple(bytes_to_nibbles(nibbles_to_bytes(ns))) != ns or nibbles_to_bytes(ns) != mpt.unnib(ns):
                    a.bad("nibbles_roundtrip", "nibbles_to_bytes / bytes_to_nibbles are not mutually inverse", nibbles=ns)
            except Exception as e:  # noqa
                a.bad("conversion_raised", f"nibble conversion raised {type(e).__name__}", nibbles=ns)
    for n in range(0, 4):
        for ns in itertools.product((0, 5, 15, 16, 17, -1), repeat=n):
            a.evals += 1
            try:
                b = nibbles_to_bytes(ns)
            except Exception:  # noqa  (refusing is fine; which exception is not this property's business)
                a.stats["nibbles_refused"] += 1
                continue
            try:
                if tuple(bytes_to_nibbles(b)) != ns:
                    a.bad("nibbles_roundtrip", "nibbles_to_bytes accepted a sequence that does not convert back to itself", nibbles=ns, packed=b)
            except Exception as e:  # noqa
                a.bad("conversion_raised", f"bytes_to_nibbles raised {type(e).__name__}", nibbles=ns)
    for n in (0, 8, 16):
        for bs in itertools.product((0, 1), repeat=n):
            a.evals += 1
            try:
                if tuple(encode_to_bin(decode_from_bin(bytes(bs)))) != bs or decode_from_bin(bytes(bs)) != bt.unbits(bs):
                    a.bad("bin_roundtrip", "decode_from_bin / encode_to_bin are not mutually inverse", bits=bs)
            except Exception as e:  # noqa
                a.bad("conversion_raised", f"bit conversion raised {type(e).__name__}", bits=bs)
    # binary key-path packing: every bit string up to bits_max
    for n in range(0, bits_max + 1):
        for bs in itertools.product((0, 1), repeat=n):
            a.evals += 1
            try:
                enc = encode_from_bin_keypath(bytes(bs))
                dec = decode_to_bin_keypath(enc)
            except Exception as e:  # noqa
                a.bad("keypath_raised", f"key-path packing raised {type(e).__name__}", bits=bs)
                continue
            if enc != bt.pack_path(bs):
                a.bad("keypath_encode_wrong", "encode_from_bin_keypath differs from the specified packing", bits=bs, got=enc, want=bt.pack_path(bs))
            if tuple(dec) != bs:
                a.bad("keypath_roundtrip", "decode_to_bin_keypath(encode_from_bin_keypath(x)) != x", bits=bs, got=tuple(dec))
    # binary nodes: well-formed
    children = [bytes([i]) * 32 for i in (0, 1, 0xFF)]
    for n in range(1, kv_bits + 1):
        for bs in itertools.product((0, 1), repeat=n):
            for c in children[:2]:
                a.evals += 1
                try:
                    enc = encode_kv_node(bytes(bs), c)
                    got = parse_node(enc)
                except Exception as e:  # noqa
                    a.bad("bin_node_raised", f"kv node encode/parse raised {type(e).__name__}", bits=bs)
                    continue
                if enc != bt.enc_kv(bs, c) or got[0] != KV_TYPE or tuple(got[1]) != bs or got[2] != c:
                    a.bad("bin_node_roundtrip", "a kv node does not parse back to its parts", bits=bs)
    for l in children:
        for r in children:  # includes l == r: two identical sub-tries are legal
            a.evals += 1
            try:
                enc = encode_branch_node(l, r)
                if enc != bt.enc_branch(l, r) or parse_node(enc) != (BRANCH_TYPE, l, r):
                    a.bad("bin_node_roundtrip", "a branch node does not parse back to its parts", left=l, right=r)
            except Exception as e:  # noqa
                a.bad("bin_node_raised", f"encoding / parsing a well-formed branch node raised {type(e).__name__}", left=l, right=r)
    for v in (b"a", b"\x00", b"\x01", b"\x02", b"\x02\x02zz", b"v" * 33, b"x" * 64, b"y" * 100):
        a.evals += 1
        try:
            enc = encode_leaf_node(v)
            got = parse_node(enc)
            if enc != bt.enc_leaf(v) or got[0] != LEAF_TYPE or got[2] != v:
                a.bad("bin_node_roundtrip", "a leaf node does not parse back to its value", value=v)
        except Exception as e:  # noqa
            a.bad("bin_node_raised", f"encoding / parsing a well-formed leaf node raised {type(e).__name__}", value=v)
    # binary nodes: malformed => InvalidNode
    malformed = [None, b""]
    malformed += [bytes([t]) + b"\x00" * n for t in range(3, 256) for n in (0, 1, 32, 64)]
    malformed += [b"\x01" + b"\x07" * n for n in range(0, 80) if n != 64]
    malformed += [b"\x00" + b"\x07" * n for n in range(0, 33)]
    malformed += [b"\x02"]
    for node in malformed:
        a.evals += 1
        try:
            got = parse_node(node)
            a.bad("malformed_node_accepted", "an empty / unknown-type / impossible-length binary node was accepted", node=node, got=got)
        except InvalidNode:
            a.stats["rejected_malformed"] += 1
        except Exception as e:  # noqa
            a.bad("malformed_node_wrong_exception", f"a malformed binary node raised {type(e).__name__} instead of InvalidNode", node=node)
    # hexary: blank and 17-item nodes
    a.evals += 2
    try:
        blank = decode_node(b"")
        if get_node_type(blank) != NODE_TYPE_BLANK or not is_blank_node(blank):
            a.bad("hexary_node_classification", "the blank node does not classify as blank")
        br = decode_node(_rlp.encode([b""] * 16 + [b"v"]))
        if get_node_type(br) != NODE_TYPE_BRANCH or not is_branch_node(br) or is_leaf_node(br) or is_extension_node(br):
            a.bad("hexary_node_classification", "a 17-item node does not classify as a branch")
        for bad in ([b"a"], [b"a"] * 3, [b"a"] * 16, [b"a"] * 18):
            a.evals += 1
            try:
                get_node_type(bad)
                a.bad("hexary_node_classification", "a node of impossible length was classified", length=len(bad))
            except InvalidNode:
                pass
    except Exception as e:  # noqa
        a.bad("hexary_node_raised", f"classifying blank / branch nodes raised {type(e).__name__}")
    return a.evals, a.viols, dict(a.stats)


LONG = (31, 32, 33, 63, 64, 65, 127, 128, 129, 255, 256, 257, 258, 259, 260, 261, 262, 263, 264, 300, 511, 512, 513, 1000)


def patterns(n, alphabet):
    lo, hi = alphabet[0], alphabet[-1]
    mid = alphabet[len(alphabet) // 2]
    return [tuple([lo] * n), tuple([hi] * n), tuple((lo, hi)[i % 2] for i in range(n)), tuple(alphabet[i % len(alphabet)] for i in range(n)),
            tuple([lo] * (n - 1) + [hi]), tuple([hi] + [mid] * (n - 1))]


def long_inputs():
    """boundary probes far beyond the exhaustive bound: every length of LONG x six fill patterns (bounded, not sampled)"""
    a = Acc()
    for n in LONG:
        for ns in patterns(n, tuple(range(16))):
            for term in (False, True):
                for form in (tuple, list):
                    a.evals += 1
                    arg = form(ns) + form((16,) if term else ())
                    try:
                        enc = encode_nibbles(arg)
                        dec = tuple(decode_nibbles(enc))
                        key = compute_leaf_key(form(ns)) if term else compute_extension_key(form(ns))
                    except Exception as e:  # noqa
                        a.bad("hp_raised", f"encode/decode_nibbles raised {type(e).__name__} for a long path", length=n, terminator=term, form=form.__name__)
                        continue
                    if enc != mpt.hp(ns, term) or key != enc:
                        a.bad("hp_encode_wrong", "encode_nibbles / compute_*_key differ from the Yellow Paper HP function for a long path", length=n,
                              terminator=term, form=form.__name__)
                    if dec != tuple(ns) + ((16,) if term else ()):
                        a.bad("hp_roundtrip", "decode_nibbles(encode_nibbles(x)) != x for a long path (sequence or flag lost)", length=n, terminator=term)
                    node = decode_node(_rlp.encode([enc, b"v" if term else b"\x11" * 32]))
                    if get_node_type(node) != (NODE_TYPE_LEAF if term else NODE_TYPE_EXTENSION) or tuple(extract_key(node)) != tuple(ns):
                        a.bad("hexary_node_classification", "a hexary node with a long path does not classify as written or yields another key path",
                              length=n, terminator=term)
        for bs in patterns(n, (0, 1)):
            a.evals += 1
            try:
                enc = encode_from_bin_keypath(bytes(bs))
                if enc != bt.pack_path(bs) or tuple(decode_to_bin_keypath(enc)) != bs:
                    a.bad("keypath_roundtrip", "key-path packing does not round-trip a long bit string", length=n)
                child = b"\x22" * 32
                node = encode_kv_node(bytes(bs), child)
                got = parse_node(node)
                if node != bt.enc_kv(bs, child) or got[0] != KV_TYPE or tuple(got[1]) != bs or got[2] != child:
                    a.bad("bin_node_roundtrip", "a kv node with a long key path does not parse back to its parts", length=n)
            except Exception as e:  # noqa
                a.bad("bin_node_raised", f"a well-formed kv node with a long key path raised {type(e).__name__}", length=n)
        if n % 8 == 0 or n in (33, 129, 300):
            for bs in patterns(n, tuple(range(256))):
                a.evals += 1
                b = bytes(bs)
                try:
                    if nibbles_to_bytes(bytes_to_nibbles(b)) != b or tuple(bytes_to_nibbles(b)) != mpt.nib(b) or decode_from_bin(encode_to_bin(b)) != b:
                        a.bad("nibbles_roundtrip", "byte <-> nibble / bit conversions do not round-trip a long byte string", length=n)
                except Exception as e:  # noqa
                    a.bad("conversion_raised", f"byte conversion raised {type(e).__name__} for a long byte string", length=n)
    return a.evals, a.viols, dict(a.stats)


def run(tier, seed):
    rep = Report("C16", tier, seed, "exploration")
    thorough = tier == "thorough"
    L = 5 if thorough else 4
    bits_max = 16 if thorough else 12
    rep.rule = (f"every nibble sequence of length <= {L} over all 16 nibbles and of length <= 8 over {{0,1,f}}, with and without terminator: "
                "encode == Yellow-Paper HP, decode(encode(x)) == x, node built with compute_*_key classifies and yields the path, and the node simulated after consuming any "
                "part of that path is keyed by HP(rest); every byte string "
                f"of length <= 2 through bytes<->nibbles and bytes<->bits; every bit string of length <= {bits_max} through the key-path packing; "
                "every kv node (path <= 10 bits), branch and leaf node parse back; boundary probes at lengths 31..1000 (six fill patterns each) for nibble paths, "
                "bit paths, kv nodes and byte strings; the malformed family (empty, None, type bytes 3..255, branch "
                "lengths != 65, kv lengths <= 33, bare leaf byte) => InvalidNode; non-trivial = every input is distinct by construction")
    rep.assumptions = ["the 'randomly beyond the bound' clause of the property is not claimed (sampling is another family)",
                       "spec functions in mcx/ref (own HP / packing), validated by literal vectors in the self-test"]
    jobs = []
    for n in range(0, L + 1):
        if n == 0:
            jobs.append((tuple(range(16)), 0, 0))
        else:
            for f in range(16):
                jobs.append((tuple(range(16)), n, f))
    for n in range(L + 1, 9):
        for f in (0, 1, 15):
            jobs.append(((0, 1, 15), n, f))
    total = 0
    nviol = 0
    for evals, viols, stats in pmap(hp_chunk, jobs):
        total += evals
        for v in viols:
            rep.add_violation(v, dict(system="C16"))
        nviol += stats.get("violations", 0)
    rep.add_part(name="hex-prefix / hexary node classification", evaluations=total, violations=nviol)
    evals, viols, stats = misc(bits_max, 10)
    for v in viols:
        rep.add_violation(v, dict(system="C16"))
    rep.add_part(name="byte/nibble/bit conversions, key-path packing, binary nodes", evaluations=evals, violations=stats.get("violations", 0), stats=stats)
    evals2, viols, stats = long_inputs()
    for v in viols:
        rep.add_violation(v, dict(system="C16"))
    rep.add_part(name=f"boundary probes: lengths {LONG} x 6 fill patterns (nibble paths, bit paths, kv nodes, byte strings)", evaluations=evals2,
                 violations=stats.get("violations", 0))
    evals += evals2
    rep.evaluations = total + evals
    rep.nontrivial = total + evals
    rep.samples = [dict(nibbles=[1, 2, 3], terminator=True, encoded="0x" + mpt.hp((1, 2, 3), True).hex()),
                   dict(bit_path=[1, 0, 1], packed="0x" + bt.pack_path((1, 0, 1)).hex()),
                   dict(malformed_binary_node="0x03" + "00" * 32, expected="InvalidNode")]
    return rep


def replay(doc):
    # the inputs are in the violation detail; re-run the whole (cheap) enumeration and look for the same check
    rep = run(doc.get("tier", "quick"), doc.get("seed", 0))
    names = {v.get("check") for v, _ in rep.violations}
    print("re-enumerated; failing checks:", sorted(names))
    return doc["check"] in names
