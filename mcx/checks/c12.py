"""C12 — BinaryTrie is a map with a canonical, history-independent root (DESIGN §5 C12)."""
from ..binsys import BinSys
from ..engine import explore, replay_doc
from ..report import Report


def run(tier, seed):
    rep = Report("C12", tier, seed, "model_checking")
    rep.rule = ("closure BFS to fixpoint over set(k, v) for every universe key and value, set(k, b'') / delete(k) / delete_subtrie(p) for every "
                "universe key and probe (method and item syntax); model = prefix-free dict with the refusal rules of the property; after every "
                "transition: exception rules, refusal leaves root and contents unchanged, root == hash of the canonical kv/branch/leaf encoding "
                "built declaratively from the contents, db append-only and content-addressed (=> earlier roots stay readable), closure complete; "
                "in every state get/[]/exists/in for every probe")
    rep.assumptions = ["binary universes of DESIGN §4 (fixed and variable length keys, branch on a byte boundary)", "oracle mcx/ref/bintrie.py"]
    plans = [dict(universe="B8", values=("a", "bb"), forms=("m", "i")), dict(universe="BLK", values=("a", "bb")), dict(universe="BC", values=("a",)),
             dict(universe="BXL", values=("a", "bb")), dict(universe="B6", values=("br65", "kv34", "blank")), dict(universe="BRC", values=("a",)),
             dict(universe="B4", values=("a", "bb"), chain=2), dict(universe="B4", values=("a",), chain=3)]
    if tier == "thorough":
        plans = plans + [dict(universe="B10", values=("a", "bb")), dict(universe="B8", values=("a", "bb", "c33"), forms=("m", "i")),
                 dict(universe="B4L", values=("a", "bb", "c33"))]
    for kw in plans:
        sysm = BinSys(seed=seed, **kw)
        res = explore(sysm, state_cap=400000)
        rep.add_bfs(f"{kw['universe']} x {kw['values']}", res, sysm)
    return rep


def replay_bin(doc):
    kw = dict(doc["system"]["kwargs"])
    for k in ("values", "props", "forms"):
        kw[k] = tuple(kw[k])
    return replay_doc(lambda: BinSys(**kw), doc)


replay = replay_bin
