"""C09 — a fog-guided walk finds everything, even while the trie changes (DESIGN §5 C09)."""
from ..engine import explore, replay_doc
from ..report import Report
from ..walksys import WalkSys


def configs(tier):
    out = []
    for prune in (False, True):
        for cache in (False, True):
            out.append(dict(universe="H5", values=("S", "L"), prune=prune, use_cache=cache, max_mut=1))
            out.append(dict(universe="HW4", values=("S", "L"), prune=prune, use_cache=cache, max_mut=1))
    out.append(dict(universe="H5", values=("S", "L"), prune=False, use_cache=False, max_mut=1, root_via="root_node"))
    for prune in (False, True):
        out.append(dict(universe="H4", values=("S", "L"), prune=prune, use_cache=False, max_mut=1, root_via="root_node", batch_mut=True))
    # the pruning trie being walked was re-opened on its database with regenerated reference counts
    out.append(dict(universe="H4", values=("S", "L"), prune=True, use_cache=False, max_mut=1, regen=True))
    # the mutation is a batch opened on a batch trie (both commit), the two levels writing the same key
    out.append(dict(universe="H3", values=("S", "L"), prune=True, use_cache=False, max_mut=1, nested_mut=True))
    if tier == "thorough":
        out = []
        for prune in (False, True):
            out.append(dict(universe="H4", values=("S", "L"), prune=prune, use_cache=True, max_mut=1, nested_mut=True))
        out.append(dict(universe="H5", values=("S", "L"), prune=True, use_cache=True, max_mut=1, regen=True))
        for prune in (False, True):
            for cache in (False, True):
                out.append(dict(universe="H6", values=("S", "L"), prune=prune, use_cache=cache, max_mut=1))
                out.append(dict(universe="H5", values=("S", "L"), prune=prune, use_cache=cache, max_mut=2, init=(0, 2, 3, 5)))
                out.append(dict(universe="H4b", values=("S", "L"), prune=prune, use_cache=cache, max_mut=3, mut_values=("L",)))
                out.append(dict(universe="HW4", values=("S", "L"), prune=prune, use_cache=cache, max_mut=2))
                out.append(dict(universe="H4", values=("S", "L"), prune=prune, use_cache=cache, max_mut=1, batch_mut=True))
    return out


def run(tier, seed):
    rep = Report("C09", tier, seed, "model_checking")
    rep.rule = ("product system trie x fog x frontier cache x met-set, initial states = every mapping of the universe; walker event visit(p) for "
                "every unexplored prefix p (all exploration orders), mutator events = every set/delete of the universe while fewer than M "
                "mutations were used, one cache reset; every terminal state (fog complete) checked: M=0 => met == contents; always stable "
                "subset-of met subset-of ever; every step strictly refines the fog within the key depth (termination)")
    rep.assumptions = ["walker protocol = the one stated in the property (and used by the repository's walk tests): traverse / traverse_from via the "
                       "frontier cache, simulated node on TraversedPartialPath, drop a stale cache entry on MissingTraversalNode (pruning tries)",
                       "mutations bounded by M per walk (reported per part)", "alphabet of DESIGN §4"]
    for kw in configs(tier):
        kw = dict(kw)
        if "init" in kw:
            kw["init"] = tuple(kw["init"])
        sysm = WalkSys(seed=seed, **kw)
        res = explore(sysm, state_cap=3_000_000, replay_cap=4000)
        name = f"{kw['universe']} prune={kw['prune']} cache={kw['use_cache']} M<={kw['max_mut']}" + (" via root_node" if kw.get("root_via") == "root_node" else "") + (" +batches" if kw.get("batch_mut") else "") + (" re-opened with regenerated counts" if kw.get("regen") else "") + (" +nested batches" if kw.get("nested_mut") else "")
        rep.add_bfs(name, res, sysm, keep_samples=1)
        rep.parts[-1]["terminal_states"] = res.terminal_states
        rep.parts[-1]["schedules"] = res.paths_to_terminals
        rep.parts[-1]["schedules_note"] = ("number of distinct complete event sequences (walk orders x mutation placements) from an initial state to a "
                                           "fog-complete state, counted by dynamic programming over the explored state graph; every one of them ends in "
                                           "a checked terminal state" + ("" if not res.late_edges else f"; lower bound ({res.late_edges} non-level edges)"))
        rep.cov["schedules"] = rep.cov.get("schedules", 0) + res.paths_to_terminals
    return rep


def replay(doc):
    kw = dict(doc["system"]["kwargs"])
    for k in ("values", "mut_values"):
        kw[k] = tuple(kw[k])
    if isinstance(kw.get("init"), list):
        kw["init"] = tuple(kw["init"])
    return replay_doc(lambda: WalkSys(**kw), doc)
