"""C10 — NodeIterator enumerates contents in key order; next() is the strict successor (DESIGN §5 C10)."""
from trie.iter import NodeIterator

from ..enumerate import Out, hex_states, per_state, replay_per_state
from ..hexsys import apply_op, restore
from ..ref import mpt
from ..report import Report
from .common import add_scale
from .c08 import ann, describe


def queries(sysm):
    qs = set()
    for k in sysm.keys + sysm.probes:
        qs.add(k)
        if k:
            qs.add(k[:-1])
            last = k[-1]
            if last > 0:
                qs.add(k[:-1] + bytes([last - 1]))
            if last < 255:
                qs.add(k[:-1] + bytes([last + 1]))
            qs.add(k[:-1] + bytes([last & 0xF0]))
            qs.add(k[:-1] + bytes([last | 0x0F]))
        qs.add(k + b"\x00")
        qs.add(k + b"\xff")
    qs |= {b"", b"\x00", b"\xff", b"\xff\xff\xff\xff"}
    return sorted(qs)


def make_fn():
    cache = {}

    def fn(sysm, snap, model):
        o = Out()
        qs = cache.get("q")
        if qs is None:
            qs = cache["q"] = queries(sysm)
        t = restore(snap, logdict=False)
        it = NodeIterator(t)
        want_items = sorted(model.items())
        for name, call, want in (("keys", lambda: list(it.keys()), [k for k, _ in want_items]),
                                 ("items", lambda: list(it.items()), want_items),
                                 ("values", lambda: list(it.values()), [v for _, v in want_items])):
            o.evals += 1
            try:
                got = call()
            except Exception as e:  # noqa
                o.viol("C10", "iter_raised", f"{name}() raised {type(e).__name__}", call=name, exc=repr(e)[:160], model=model)
                continue
            if got != want:
                o.viol("C10", "iter_wrong", f"{name}() does not yield the stored pairs in ascending key order, each once", call=name,
                       got=got, want=want)
            elif want:
                o.nontrivial += 1
        # next()
        skeys = [k for k, _ in want_items]
        for q in [None] + qs:
            o.evals += 1
            if q is None:
                want = skeys[0] if skeys else None
            else:
                bigger = [k for k in skeys if k > q]
                want = bigger[0] if bigger else None
            try:
                got = it.next() if q is None else it.next(q)
            except Exception as e:  # noqa
                o.viol("C10", "next_raised", f"next({None if q is None else q.hex()}) raised {type(e).__name__}", call="next", query=q,
                       exc=repr(e)[:160], model=model)
                break
            if got != want:
                o.viol("C10", "next_wrong", "next(k) is not the smallest stored key strictly greater than k", call="next", query=q,
                       got=got, want=want, model=model)
                break
            if want is not None:
                o.nontrivial += 1
            o.stats["next:" + ("none" if want is None else ("present_query" if q in model else "absent_query"))] += 1
        # nodes(): canonical pre-order, each once, each equal to traverse(prefix)
        o.evals += 1
        try:
            got_nodes = list(it.nodes())
        except Exception as e:  # noqa
            o.viol("C10", "iter_raised", f"nodes() raised {type(e).__name__}", call="nodes", exc=repr(e)[:160], model=model)
            return o
        if model:
            want_nodes = [(n.pos,) + describe(n) for n in mpt.walk(mpt.tree(model))]
            got_desc = [(tuple(int(x) for x in p),) + ann(n) for p, n in got_nodes]
            if got_desc != want_nodes:
                o.viol("C10", "nodes_wrong", "nodes() does not yield every node exactly once, parents first, left to right", call="nodes",
                       got=[g[:2] for g in got_desc], want=[w[:2] for w in want_nodes], model=model)
            else:
                o.nontrivial += 1
                for p, n in got_nodes:
                    if ann(t.traverse(p)) != ann(n):
                        o.viol("C10", "nodes_not_traverse", "a node yielded by nodes() differs from traverse(prefix)", call="nodes", prefix=tuple(p))
                        break
            o.stats["nodes:%d" % len(want_nodes)] += 1
        # two ordered walks alive at the same time, advanced alternately (this trie and a neighbour one transition away,
        # both in the same database), then the SAME iterator object re-queried after the trie was modified
        t2 = restore(snap, logdict=False)
        for op in sysm.ops[:: max(1, len(sysm.ops) // 5)]:
            m2 = dict(model)
            tb = restore(snap, logdict=False)
            tb.db = t2.db  # same database object for both tries
            try:
                with tb.at_root(snap[0]) as ts:  # a snapshot of the present root, taken before the write and iterated after it
                    apply_op(tb, m2, op)
            except Exception:  # noqa
                continue
            if tb.root_hash == snap[0]:
                continue
            bad = False
            for how, ta in (("a second trie opened at the old root", type(tb)(t2.db, snap[0])), ("an at_root snapshot taken before the write", ts)):
                o.evals += 1
                try:
                    ia, ib = NodeIterator(ta).items(), NodeIterator(tb).items()
                    got_a, got_b = [], []
                    done_a = done_b = False
                    while not (done_a and done_b):
                        if not done_a:
                            try:
                                got_a.append(next(ia))
                            except StopIteration:
                                done_a = True
                        if not done_b:
                            try:
                                got_b.append(next(ib))
                            except StopIteration:
                                done_b = True
                    if got_a != want_items or got_b != sorted(m2.items()):
                        o.viol("C10", "interleaved_walks_wrong", f"two walks advanced alternately ({how} / the modified trie) do not each yield their own "
                               "trie's pairs in order", call="items", op=op, model=model, how=how)
                        bad = True
                        break
                    o.nontrivial += 1
                except Exception as e:  # noqa
                    o.viol("C10", "iter_raised", f"interleaved walks raised {type(e).__name__}", call="items", op=op, exc=repr(e)[:160], how=how)
                    bad = True
                    break
            if bad:
                break
        # one iterator object, queries, a modification of the trie, the same queries again
        tm = restore(snap, logdict=False)
        itm = NodeIterator(tm)
        mm = dict(model)
        try:
            for q in qs[:: max(1, len(qs) // 12)]:
                itm.next(q)
            for op in sysm.ops[:: max(1, len(sysm.ops) // 4)]:
                apply_op(tm, mm, op)
                sk = sorted(mm)
                for q in qs[:: max(1, len(qs) // 12)]:
                    o.evals += 1
                    bigger = [k for k in sk if k > q]
                    want = bigger[0] if bigger else None
                    got = itm.next(q)
                    if got != want:
                        o.viol("C10", "next_wrong_after_update", "next(k) on an iterator that was used before the trie changed is not the strict successor",
                               call="next", query=q, got=got, want=want, op=op, model=mm)
                        raise StopIteration
                if list(itm.keys()) != sk:
                    o.viol("C10", "iter_wrong_after_update", "keys() on an iterator that was used before the trie changed is wrong", call="keys", op=op)
                    raise StopIteration
        except StopIteration:
            pass
        except Exception as e:  # noqa
            o.viol("C10", "iter_raised", f"iterator reuse after an update raised {type(e).__name__}", call="next", exc=repr(e)[:160])
        if not o.samples and len(model) >= 3:
            o.samples.append(dict(model=model, queries=len(qs) + 1))
        return o

    return fn


def run(tier, seed):
    rep = Report("C10", tier, seed, "exploration")
    rep.rule = ("states = every trie of a closure BFS; keys/items/values compared with the sorted model; next(q) for q in universe, probes and, "
                "for each, the truncation, the byte-neighbours, the nibble-extremes of the last byte and the extensions by 00 / ff, plus next(); "
                "nodes() compared with the canonical pre-order and with traverse(prefix); non-trivial = a query with a successor / a non-empty trie")
    rep.assumptions = ["alphabet of DESIGN §4"]
    plans = [("H7xSL", dict(universe="H7", values=("S", "L"))), ("HW4xSL", dict(universe="HW4", values=("S", "L"))),
             ("HSxSL (identical sub-tries)", dict(universe="HS", values=("S", "L")))]
    if tier == "thorough":
        plans = [("H7xSL", dict(universe="H7", values=("S", "L"))), ("H9xSL", dict(universe="H9", values=("S", "L"))),
                 ("HWxSL", dict(universe="HW", values=("S", "L"))), ("HSxSL", dict(universe="HS", values=("S", "L"))),
                 ("H5xST29L", dict(universe="H5", values=("S", "T29", "L"))), ("HLxSL", dict(universe="HL", values=("S", "L")))]
    for name, kw in plans:
        sysm, states = hex_states(rep, name, **kw)
        per_state(rep, name + " iteration", sysm, states, make_fn())
    add_scale(rep, "C10", prunes=(False,))
    return rep


def replay(doc):
    if doc["system"].get("system") == "scale":
        from .common import replay_hex
        return replay_hex(doc)
    return replay_per_state(doc, make_fn())
