"""C02 — root hash is the canonical Ethereum MPT root of the contents (DESIGN §5 C02)."""
from ..report import Report
from .common import add_scale, run_hex, replay_hex

replay = replay_hex


def run(tier, seed):
    rep = Report("C02", tier, seed, "model_checking")
    rep.rule = ("closure BFS to fixpoint over set/delete/set-empty and squash_changes batches, both prune modes; after EVERY "
                "transition root_hash is compared with an independent declarative Yellow-Paper root of the model contents; in every "
                "state db[root] must be the canonical root node; distinct = canonical state")
    rep.assumptions = ["oracle mcx/ref/mpt.py (own RLP/HP/Keccak binding), validated by known-answer vectors in the self-test",
                       "alphabet of DESIGN §4 incl. threshold value T29 (leaf RLP of exactly 32 bytes)"]
    P = ("C02",)
    for prune in (False, True):
        run_hex(rep, f"H5xST29L direct prune={prune}", universe="H5", values=("S", "T29", "L"), prune=prune, props=P)
        run_hex(rep, f"H7xSL direct prune={prune}", universe="H7", values=("S", "L"), prune=prune, props=P)
        run_hex(rep, f"H4xST29L batch<=1 prune={prune}", universe="H4", values=("S", "T29", "L"), prune=prune, props=P, batch_len=1,
                exits=("commit", "abort", "cancel") + (() if prune else ("wfail",)))
        run_hex(rep, f"HW4xSL direct prune={prune} (slots 0 and 15, branch value)", universe="HW4", values=("S", "L"), prune=prune, props=P)
        run_hex(rep, f"HXXLxSL direct prune={prune} (130-byte keys)", universe="HXXL", values=("S", "L"), prune=prune, props=P)
        run_hex(rep, f"HVxSL direct prune={prune} (empty key, 20-byte key, two 34-byte keys)", universe="HV", values=("S", "L"), prune=prune, props=P)
        run_hex(rep, f"HW4 x single-byte / RLP-boundary values prune={prune}", universe="HW4", values=("Z00", "B80", "V55", "V56"), prune=prune, props=P)
        run_hex(rep, f"HL4xST29X direct prune={prune} (32-byte keys, long extensions, 60-byte values)", universe="HL", values=("S", "T29", "X"), prune=prune, props=P)
    for prune in (False, True):
        run_hex(rep, f"H4xSL chains of 3 consecutive operations on ONE live object prune={prune}", universe="H4", values=("S", "L"), prune=prune,
                props=P, chain=3)
        run_hex(rep, f"HP3 x sentinel-valued contents prune={prune}", universe="HP3", values=("S", "VBNH", "VBH"), prune=prune, props=P)
        run_hex(rep, f"H3xSL nested batches (a batch opened on the batch trie) prune={prune}", universe="H3", values=("S", "L"), prune=prune, props=P,
                batch_len=1, exits=("commit", "abort"), nested=True, direct=False)
        run_hex(rep, f"HT x one-byte values around 0x80 prune={prune} (55-nibble leaf paths: node sizes 31 / 32)", universe="HT",
                values=("B7f", "B80", "Bff"), prune=prune, props=P)
    if tier == "thorough":
        for prune in (False, True):
            run_hex(rep, f"H3xSL chains of 4 operations on ONE live object prune={prune}", universe="H3", values=("S", "L"), prune=prune, props=P, chain=4)
            run_hex(rep, f"HS4xSL chains of 3 operations on ONE live object prune={prune}", universe="HS4", values=("S", "L"), prune=prune, props=P, chain=3)
        sweep = ("S", "T26", "T27", "T28", "T29", "T30", "L", "X")
        for prune in (False, True):
            run_hex(rep, f"H9xSL direct prune={prune}", universe="H9", values=("S", "L"), prune=prune, props=P)
            run_hex(rep, f"H7xST29L direct prune={prune}", universe="H7", values=("S", "T29", "L"), prune=prune, props=P)
            for uni in ("H4", "HS4", "HW4", "H4b"):
                run_hex(rep, f"{uni} x threshold sweep prune={prune}", universe=uni, values=sweep, prune=prune, props=P)
            run_hex(rep, f"HLxST29L direct prune={prune}", universe="HL", values=("S", "T29", "L"), prune=prune, props=P)
            run_hex(rep, f"HWxSL direct prune={prune}", universe="HW", values=("S", "L"), prune=prune, props=P)
            run_hex(rep, f"H5xSL batch<=2 prune={prune}", universe="H5", values=("S", "L"), prune=prune, props=P, batch_len=2,
                    exits=("commit",))
    # non-vacuity: node encodings of exactly 31, 32 and 33 bytes must have been met
    sizes = set()
    for p in rep.parts:
        for k in p.get("stats", {}):
            if k.startswith("enc_len:"):
                sizes.add(int(k.split(":")[1]))
    rep.cov["encoded_node_sizes_met"] = sorted(sizes)
    rep.cov["threshold_sizes_31_32_33_met"] = all(s in sizes for s in (31, 32, 33))
    add_scale(rep, "C02")
    return rep
