"""helpers shared by the HexSys-based checks"""
from ..engine import explore, unjson, replay_doc
from ..hexsys import HexSys


def run_hex(rep, name, **kw):
    explore_kw = {}
    for k in ("state_cap", "depth_cap", "keep_states", "replay_cap", "validate_replays", "workers"):
        if k in kw:
            explore_kw[k] = kw.pop(k)
    sysm = HexSys(seed=rep.seed, **kw)
    if "state_cap" not in explore_kw:
        # on a correct implementation states correspond to mappings: (|values|+1)^|keys|.  A leaking pruning implementation
        # has unboundedly many exact states; twice the expected number is a sure sign and stops the search (reported as a cap).
        explore_kw["state_cap"] = 2 * (len(sysm.vals) + 1) ** len(sysm.keys) + 50
    res = explore(sysm, **explore_kw)
    rep.add_bfs(name, res, sysm)
    return sysm, res


def add_scale(rep, prop, prunes=(False, True)):
    """scale probes (mcx/scale.py): long fixed histories on one live trie, deep / wide shapes, big batches"""
    import time
    from ..engine import pmap
    from ..scale import hex_scale
    t0 = time.time()
    total = 0
    for prune, (viols, evals) in zip(prunes, pmap(hex_scale, [(prop, p) for p in prunes])):
        total += evals
        for v in viols:
            v = dict(v)
            v["hist"] = []
            rep.add_violation(v, dict(system="scale", kwargs=dict(prop=prop, prune=prune)))
    rep.add_part(name="scale probe: 222 keys (40 nested prefixes, 16-way comb 10 levels deep), one-by-one + big batches, one live object per prune mode",
                 evaluations=total, wall_s=round(time.time() - t0, 2))
    if rep.evaluations:  # reports that count evaluations themselves (fault enumeration / exploration levels)
        rep.evaluations += total


def replay_hex(doc):
    """re-run a recorded history through the system's step function; True if the same check fails again"""
    if doc["system"].get("system") == "scale":
        from ..scale import hex_scale
        viols, _ = hex_scale(doc["system"]["kwargs"]["prop"], doc["system"]["kwargs"]["prune"])
        print("re-ran the scale probe; failing checks:", sorted({v["check"] for v in viols}))
        return doc["check"] in {v["check"] for v in viols}
    kw = dict(doc["system"]["kwargs"])
    for k in ("values", "props", "forms", "exits"):
        kw[k] = tuple(kw[k])
    kw["extra_batches"] = unjson(kw.get("extra_batches") or [])
    return replay_doc(lambda: HexSys(**kw), doc)
