"""helpers shared by the HexSys-based checks"""
from ..engine import explore, unjson, HarnessError
from ..hexsys import HexSys


def run_hex(rep, name, **kw):
    explore_kw = {}
    for k in ("state_cap", "depth_cap", "keep_states", "replay_cap", "validate_replays"):
        if k in kw:
            explore_kw[k] = kw.pop(k)
    sysm = HexSys(seed=rep.seed, **kw)
    res = explore(sysm, **explore_kw)
    rep.add_bfs(name, res, sysm)
    return sysm, res


def replay_hex(doc):
    """re-run a recorded history through the system's step function; True if the same check fails again"""
    kw = dict(doc["system"]["kwargs"])
    kw["values"] = tuple(kw["values"])
    kw["props"] = tuple(kw["props"])
    kw["forms"] = tuple(kw["forms"])
    kw["exits"] = tuple(kw["exits"])
    kw["extra_batches"] = unjson(kw.get("extra_batches") or [])
    outcomes = []
    for _ in range(2):
        sysm = HexSys(**kw)
        hist = [unjson(e) for e in doc["history"]]
        snap, model = sysm.initial()[hist[0][1]]
        found = []
        for ev in hist[1:]:
            found += [v["check"] for v in sysm.state_check(snap, model)]
            st = sysm.step(snap, model, ev)
            found += [v["check"] for v in st.viols]
            if st.snap is None:
                break
            snap, model = st.snap, st.model
        else:
            found += [v["check"] for v in sysm.state_check(snap, model)]
        outcomes.append(found)
    if outcomes[0] != outcomes[1]:
        raise HarnessError("replay is not deterministic")
    print("replayed history; failing checks:", outcomes[0])
    return doc["check"] in outcomes[0]
