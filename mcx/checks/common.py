"""helpers shared by the HexSys-based checks"""
from ..engine import explore, unjson, replay_doc
from ..hexsys import HexSys


def run_hex(rep, name, **kw):
    explore_kw = {}
    for k in ("state_cap", "depth_cap", "keep_states", "replay_cap", "validate_replays", "workers"):
        if k in kw:
            explore_kw[k] = kw.pop(k)
    sysm = HexSys(seed=rep.seed, **kw)
    if "state_cap" not in explore_kw:
        # on a correct implementation states correspond to mappings: (|values|+1)^|keys|.  A leaking pruning implementation
        # has unboundedly many exact states; twice the expected number is a sure sign and stops the search (reported as a cap).
        explore_kw["state_cap"] = 2 * (len(sysm.vals) + 1) ** len(sysm.keys) + 50
    res = explore(sysm, **explore_kw)
    rep.add_bfs(name, res, sysm)
    return sysm, res


def replay_hex(doc):
    """re-run a recorded history through the system's step function; True if the same check fails again"""
    kw = dict(doc["system"]["kwargs"])
    for k in ("values", "props", "forms", "exits"):
        kw[k] = tuple(kw[k])
    kw["extra_batches"] = unjson(kw.get("extra_batches") or [])
    return replay_doc(lambda: HexSys(**kw), doc)
