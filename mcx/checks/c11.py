"""C11 — HexaryTrieFog is an immutable, order-independent record of unexplored prefixes (DESIGN §5 C11)."""
from ..engine import explore, replay_doc
from ..fogsys import FogSys
from ..report import Report


def run(tier, seed):
    rep = Report("C11", tier, seed, "model_checking")
    rep.rule = ("closure BFS over every fog reachable from the fresh fog by explore(member, menu) for every member and every menu (leaf, every branch "
                "subset, extensions, mixed lengths, unsorted input; invalid: duplicate, nested, () with others, unknown prefix) and "
                "mark_all_complete(subset) (valid subsets, duplicates, unknown, valid-then-unknown); in every state: antichain, is_complete, "
                "serialize round-trip, ==, nearest_unknown / nearest_right on the whole query grid, pairwise commutation; on every transition: "
                "set model, receiver unchanged, invalid calls rejected without effect")
    rep.assumptions = ["nibble alphabet and depth bound of DESIGN §4 (relabelled by VERIF_SEED)"]
    plans = [dict(nibbles=(0, 7, 15), depth=2, mark_sizes=2), dict(nibbles=(0, 15), depth=3, mark_sizes=1, query_nibbles=(0, 7, 15))]
    if tier == "thorough":
        plans += [dict(nibbles=(0, 15), depth=3, mark_sizes=3), dict(nibbles=(0, 3, 7, 15), depth=2, mark_sizes=2)]
    for kw in plans:
        sysm = FogSys(seed=seed, **kw)
        res = explore(sysm, state_cap=300000)
        rep.add_bfs(f"fog nibbles={kw['nibbles']} depth={kw['depth']}", res, sysm)
    # boundary probes: fogs whose unexplored prefixes are long (serialisation packs them with the hex-prefix encoding)
    sysm = FogSys(seed=seed, nibbles=(0, 7, 15), depth=2, mark_sizes=1)
    evals = nv = 0
    for L in (31, 32, 33, 63, 64, 65, 127, 128, 129, 255, 256, 257, 300):
        a = tuple((1, 2, 15)[i % 3] for i in range(L))
        b = tuple((1, 2, 15)[i % 3] for i in range(L - 1)) + (0,)
        c = (15,) * (L + 1)
        snap = tuple(sorted({a, b, c}))
        sysm.queries = [a, b, c, a[:-1], a + (0,), a + (15, 3), b + (15, 15), c[:-2], (0,), (15,), ()]
        sysm.depth = L + 2
        found = list(sysm.state_check(snap, None))
        for ev in (("explore", a, ((0,), (15,)), True), ("explore", a, ((0,), (0, 1)), False), ("explore", b, (), True), ("mark", (a, c), True),
                   ("explore", a + (1,), ((0,),), False)):
            st = sysm.step(snap, None, ev)
            found += st.viols
            if st.snap is not None and st.snap != snap:
                found += sysm.state_check(st.snap, None)
            evals += 1
        evals += 1
        for v in found:
            v = dict(v)
            v["hist"] = [("init", 0), ("explore", (), snap, True)]
            rep.add_violation(v, sysm.describe())
            nv += 1
    rep.add_part(name="boundary probes: fogs with unexplored prefixes of 31..300 nibbles", evaluations=evals, violations=nv)
    # serialize() writes a python list of bytes literals: every 4-byte window over the bytes that matter to that syntax
    import itertools
    from trie.fog import HexaryTrieFog
    from ..ref import mpt
    from ..hexsys import V
    syntax = b", b'\"\\[]x0n\n"
    evals = nv = 0
    for win in itertools.product(sorted(set(syntax)), repeat=4):
        body = bytes(win)
        a = (1,) + mpt.nib(body)           # odd length: flag nibble + path
        b = mpt.nib(body) + (2, 12)        # even length
        evals += 1
        try:
            f = HexaryTrieFog().explore((), [a, b])
            g = HexaryTrieFog.deserialize(f.serialize())
            ok = (g == f)
        except Exception as e:  # noqa
            ok = False
        if not ok:
            nv += 1
            if nv <= 2:
                v = V("C11", "serialize_roundtrip", "deserialize(serialize(fog)) != fog for a prefix whose packed bytes look like python syntax", prefix=a)
                v["hist"] = [("init", 0), ("explore", (), (a, b), True)]
                rep.add_violation(v, sysm.describe())
    rep.add_part(name="serialisation probes: prefixes packing to every 4-byte window over the bytes , space b ' \" \\ [ ] x 0 n newline", evaluations=evals, violations=nv)
    return rep


def replay(doc):
    kw = doc["system"]["kwargs"]
    return replay_doc(lambda: FogSys(**{k: (tuple(v) if isinstance(v, list) else v) for k, v in kw.items()}), doc)
