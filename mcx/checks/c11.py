"""C11 — HexaryTrieFog is an immutable, order-independent record of unexplored prefixes (DESIGN §5 C11)."""
from ..engine import explore, replay_doc
from ..fogsys import FogSys
from ..report import Report


def run(tier, seed):
    rep = Report("C11", tier, seed, "model_checking")
    rep.rule = ("closure BFS over every fog reachable from the fresh fog by explore(member, menu) for every member and every menu (leaf, every branch "
                "subset, extensions, mixed lengths, unsorted input; invalid: duplicate, nested, () with others, unknown prefix) and "
                "mark_all_complete(subset) (valid subsets, duplicates, unknown, valid-then-unknown); in every state: antichain, is_complete, "
                "serialize round-trip, ==, nearest_unknown / nearest_right on the whole query grid, pairwise commutation; on every transition: "
                "set model, receiver unchanged, invalid calls rejected without effect")
    rep.assumptions = ["nibble alphabet and depth bound of DESIGN §4 (relabelled by VERIF_SEED)"]
    plans = [dict(nibbles=(0, 7, 15), depth=2, mark_sizes=2), dict(nibbles=(0, 15), depth=3, mark_sizes=1, query_nibbles=(0, 7, 15))]
    if tier == "thorough":
        plans += [dict(nibbles=(0, 15), depth=3, mark_sizes=3), dict(nibbles=(0, 3, 7, 15), depth=2, mark_sizes=2)]
    for kw in plans:
        sysm = FogSys(seed=seed, **kw)
        res = explore(sysm, state_cap=300000)
        rep.add_bfs(f"fog nibbles={kw['nibbles']} depth={kw['depth']}", res, sysm)
    return rep


def replay(doc):
    kw = doc["system"]["kwargs"]
    return replay_doc(lambda: FogSys(**{k: (tuple(v) if isinstance(v, list) else v) for k, v in kw.items()}), doc)
