"""C08 — traverse / traverse_from describe the canonical node at every nibble path (DESIGN §5 C08)."""
import itertools

from trie.exceptions import TraversedPartialPath

from ..enumerate import Out, hex_states, per_state, replay_per_state
from ..hexsys import restore
from ..ref import mpt
from ..report import Report

TYPE = {"blank": 0, "leaf": 1, "ext": 2, "branch": 3}


def expected(model, p, rel=0):
    """what the canonical trie of `model` has at nibble path p (positions reported relative to offset rel)"""
    r = mpt.node_at(model, p)
    if r[0] == "blank":
        return ("node", 0, (), b"", (), b"\x80")
    if r[0] == "node":
        n = r[1]
        return ("node",) + describe(n)
    n, tail = r[1], r[2]
    if n.kind == "leaf":
        sim = (1, (), n.value, tuple(n.seg[len(tail):]))
    else:
        sim = (2, (tuple(n.seg[len(tail):]),), b"", ())
    return ("partial", tuple(n.pos[rel:]), describe(n), tuple(tail)) + sim


def describe(n):
    if n.kind == "leaf":
        return (1, (), n.value, tuple(n.seg), n.enc)
    if n.kind == "ext":
        return (2, (tuple(n.seg),), b"", (), n.enc)
    return (3, tuple(sorted(n.children)), n.value, (), n.enc)


def _raw(r):
    return b"" if r == b"" else [(_raw(i) if isinstance(i, (list, tuple)) else bytes(i)) for i in r]


def ann(n):
    return (int(n.node_type), tuple(tuple(int(x) for x in s) for s in n.sub_segments), bytes(n.value), tuple(int(x) for x in n.suffix),
            mpt.rlp(_raw(n.raw)))


def observe(call):
    try:
        return ("node",) + ann(call()), None
    except TraversedPartialPath as e:
        s = e.simulated_node
        return ("partial", tuple(int(x) for x in e.nibbles_traversed), ann(e.node), tuple(int(x) for x in e.untraversed_tail),
                int(s.node_type), tuple(tuple(int(x) for x in g) for g in s.sub_segments), bytes(s.value), tuple(int(x) for x in s.suffix)), s


def path_set(sysm, L):
    nibs = set()
    for k in sysm.keys + sysm.probes:
        nibs |= set(mpt.nib(k))
    lo, hi = sysm.labels.map[0], sysm.labels.map[15]
    nibs |= {lo, hi}
    nibs = sorted(nibs)
    paths = set()
    for n in range(L + 1):
        paths |= set(itertools.product(nibs, repeat=n))
    small = sorted({nibs[0], nibs[-1]} | {x for k in sysm.keys for x in mpt.nib(k)[-1:]})
    for k in sysm.keys:
        kn = mpt.nib(k)
        for i in range(len(kn) + 1):
            for n in range(3):
                for ext in itertools.product(small, repeat=n):
                    paths.add(kn[:i] + ext)
    return sorted(paths)


def make_fn(L):
    cache = {}

    def fn(sysm, snap, model):
        o = Out()
        paths = cache.get("paths")
        if paths is None:
            paths = cache["paths"] = path_set(sysm, L)
            cache["pset"] = set(paths)
        t = restore(snap)  # LogDict: reads are counted
        hashed_pos = {nd.pos for nd in mpt.walk(mpt.tree(model)) if nd.hashed}
        # root_node == traverse(())
        o.evals += 1
        try:
            if ann(t.root_node) != ann(t.traverse(())):
                o.viol("C08", "root_node_differs", "root_node != traverse(())")
        except Exception as e:  # noqa
            o.viol("C08", "root_node_raised", f"root_node / traverse(()) raised {type(e).__name__}", exc=repr(e)[:160])
        if not model:
            for r0 in (b"",):
                o.evals += 1
                from trie import HexaryTrie as _HT
                try:
                    t0 = _HT({}, r0)
                    a_, b_ = None, None
                    try:
                        a_ = ann(t0.root_node)
                    except Exception as e:  # noqa
                        a_ = type(e).__name__
                    try:
                        b_ = ann(t0.traverse(()))
                    except Exception as e:  # noqa
                        b_ = type(e).__name__
                    if a_ != b_:
                        o.viol("C08", "root_node_differs", "root_node != traverse(()) for an empty trie opened at the blank node", got=(a_, b_))
                except Exception:  # noqa
                    pass
        positions = []
        for p in paths:
            o.evals += 1
            want = expected(model, p)
            t.db.reset_log()
            try:
                got, sim = observe(lambda: t.traverse(p))
            except Exception as e:  # noqa
                o.viol("C08", "traverse_raised", f"traverse raised {type(e).__name__} on a complete database", call="traverse", path=p, exc=repr(e)[:160])
                continue
            o.stats["outcome:" + ("partial" if want[0] == "partial" else ("blank" if want[1] == 0 else "node"))] += 1
            if got != want:
                what = "blank_vs_node" if (got[0] == "node" and want[0] == "node" and (got[1] == 0) != (want[1] == 0)) else \
                    ("classification" if got[0] != want[0] else ("node_fields" if got[0] == "node" else "partial_fields"))
                o.viol("C08", "traverse_wrong", f"traverse({p}) does not describe the canonical trie ({what})", call="traverse", kind=what,
                       path=p, got=got, want=want, model=model)
                continue
            if want[0] != "node" or want[1] != 0:
                o.nontrivial += 1
            reads = t.db.reads
            maxreads = len([q for q in hashed_pos if len(q) <= len(p) and tuple(p[: len(q)]) == q])
            if len(reads) > maxreads or len(set(reads)) != len(reads):
                o.viol("C08", "traverse_reads", "traverse read more database entries than hashed nodes on the path (or one twice)", call="traverse",
                       path=p, reads=len(reads), bound=maxreads)
            if want[0] == "node" and want[1] != 0:
                positions.append((p, t.traverse(p)))
            if sim is not None:
                # the simulated node must be usable as a start node for the rest of the walk
                for p2 in paths:
                    if len(p2) > len(p) and p2[: len(p)] == p and len(p2) <= len(p) + 2:
                        seg = p2[len(p):]
                        o.evals += 1
                        r2 = mpt.node_at(model, p2)
                        if r2[0] == "partial" and len(r2[1].pos) < len(p):
                            # still inside the same leaf / extension: the start node is the simulated node itself
                            n2 = r2[1]
                            trimmed = tuple(n2.seg[len(p) - len(n2.pos):])
                            enc = mpt.rlp([mpt.hp(trimmed, n2.kind == "leaf"), n2.raw[1]])
                            simd = (1, (), n2.value, trimmed, enc) if n2.kind == "leaf" else (2, (trimmed,), b"", (), enc)
                            w2 = ("partial", (), simd, tuple(seg)) + expected(model, p2)[4:]
                        else:
                            w2 = expected(model, p2, rel=len(p))
                        try:
                            g2, _ = observe(lambda: t.traverse_from(sim, seg))
                        except Exception as e:  # noqa
                            o.viol("C08", "simulated_node_unusable", f"traverse_from(simulated_node, seg) raised {type(e).__name__}", call="simulated",
                                   path=p, seg=seg, exc=repr(e)[:160])
                            break
                        if g2 != w2:
                            o.viol("C08", "simulated_node_wrong", "walking on from the simulated node disagrees with traverse of the full path",
                                   call="simulated", path=p, seg=seg, got=g2, want=w2)
                            break
        # traverse_from(node_q, seg) == traverse(q + seg), with bounded distinct reads
        pset = cache["pset"]
        for q, node_q in positions:
            ann_q = ann(node_q)
            for p in sorted(paths, key=lambda x: (-len(x), x)):  # long segments first, then shorter ones through the same start node
                if len(p) <= len(q) or p[: len(q)] != q:
                    continue
                seg = p[len(q):]
                o.evals += 1
                want = expected(model, p, rel=len(q))
                t.db.reset_log()
                try:
                    got, _ = observe(lambda: t.traverse_from(node_q, seg))
                except Exception as e:  # noqa
                    o.viol("C08", "traverse_raised", f"traverse_from raised {type(e).__name__} on a complete database", call="traverse_from",
                           start=q, seg=seg, exc=repr(e)[:160])
                    continue
                if got != want:
                    o.viol("C08", "traverse_from_wrong", "traverse_from(node, segment) differs from traverse(prefix + segment)", call="traverse_from",
                           start=q, seg=seg, got=got, want=want)
                    continue
                o.nontrivial += 1
                reads = t.db.reads
                maxreads = len([x for x in hashed_pos if len(q) < len(x) <= len(p) and tuple(p[: len(x)]) == x])
                if len(reads) > maxreads or len(set(reads)) != len(reads):
                    o.viol("C08", "traverse_reads", "traverse_from read more than one database entry per hashed child hop", call="traverse_from",
                           start=q, seg=seg, reads=len(reads), bound=maxreads)
            if ann(node_q) != ann_q:
                o.viol("C08", "start_node_modified", "traverse_from modified the node object it was handed (it no longer equals traverse(prefix))",
                       call="traverse_from", start=q)
                break
        # the node bodies handed out belong to the caller: scribble over them, traversals must be unaffected
        from .c03 import scribble
        for q, node_q in positions:
            scribble(node_q.raw)
        for q, node_q in positions[:12]:
            o.evals += 1
            try:
                got, _ = observe(lambda: t.traverse(q))
            except Exception as e:  # noqa
                o.viol("C08", "returned_node_aliased", f"after modifying a returned node body traverse raised {type(e).__name__}", call="traverse", path=q)
                break
            if got != expected(model, q):
                o.viol("C08", "returned_node_aliased", "modifying a node body returned by traverse changed what traverse returns", call="traverse", path=q)
                break
        if t.db.writes or t.db.dels:
            o.viol("C08", "traverse_mutated_db", "a traversal wrote to the database")
        # ONE long-lived trie object: root_node / traverse / traverse_from read, then a write of each kind (direct, committed batch, aborted
        # batch), then the same reads again on the same object
        from ..hexsys import apply_op, BatchCancel
        from trie import HexaryTrie as _HT
        for pruning in (False, True):
            try:
                tl = restore(snap, logdict=False)
                if pruning:
                    tl = _HT(dict(tl.db), tl.root_hash, prune=True, ref_count=tl.regenerate_ref_count())
                ml = dict(model)
                tl.root_node
                ops = sysm.ops[:: max(1, len(sysm.ops) // 3)][:3]
                for i, op in enumerate(ops + ops[:1]):
                    how = ("direct", "committed batch", "aborted batch", "direct")[i % 4]
                    if how == "direct":
                        apply_op(tl, ml, op)
                    elif how == "committed batch":
                        with tl.squash_changes() as b:
                            apply_op(b, ml, op)
                    else:
                        try:
                            with tl.squash_changes() as b:
                                apply_op(b, dict(ml), op)
                                raise BatchCancel()
                        except BatchCancel:
                            pass
                    o.evals += 1
                    got, _ = observe(lambda: tl.root_node)
                    if got != expected(ml, ()):
                        o.viol("C08", "root_node_differs", f"root_node of a long-lived trie is not the canonical root node after a {how} write",
                               call="root_node", how=how, op=op, model=model, pruning=pruning)
                        break
                    rn = tl.root_node
                    for q in paths[:: max(1, len(paths) // 6)]:
                        o.evals += 1
                        g1, _ = observe(lambda: tl.traverse(q))
                        g2, _ = observe(lambda: tl.traverse_from(rn, q))
                        if g1 != expected(ml, q) or g2 != g1:
                            o.viol("C08", "traverse_wrong_node" if g1 != expected(ml, q) else "traverse_from_differs",
                                   f"traverse / traverse_from(root_node, .) on a long-lived trie are wrong after a {how} write", call="traverse", path=q,
                                   how=how, op=op, model=model, pruning=pruning)
                            raise StopIteration
            except StopIteration:
                pass
            except Exception as e:  # noqa
                o.viol("C08", "traverse_raised", f"reads on a long-lived trie around writes raised {type(e).__name__}", call="root_node", exc=repr(e)[:160],
                       pruning=pruning)
        if positions and not o.samples:
            o.samples.append(dict(model=model, paths=len(paths), node_positions=[q for q, _ in positions]))
        return o

    return fn


def run(tier, seed):
    rep = Report("C08", tier, seed, "exploration")
    L = 4 if tier == "thorough" else 3
    rep.rule = (f"states = every trie of a closure BFS; inputs = every nibble path of length <= {L} over the nibbles of the universe, the probes and the "
                "two extreme nibbles, plus every prefix of every key extended by <= 2 nibbles; traverse compared with the canonical node / blank / "
                "partial-path classification computed from the contents; traverse_from from every node position to every longer path; walking on "
                "from every simulated node; db reads counted; non-trivial = a path that is not blank")
    rep.assumptions = ["alphabet of DESIGN §4", "oracle mpt.node_at / positions built declaratively from the contents"]
    fn = make_fn(L)
    plans = [("H6xSL", dict(universe="H6", values=("S", "L"))), ("HW4xSL", dict(universe="HW4", values=("S", "L")))]
    if tier == "thorough":
        plans = [("H7xSL", dict(universe="H7", values=("S", "L"))), ("H5xST29L", dict(universe="H5", values=("S", "T29", "L"))),
                 ("HWxSL", dict(universe="HW", values=("S", "L"))), ("HLxSL", dict(universe="HL", values=("S", "L")))]
    for name, kw in plans:
        fn = make_fn(L if not name.startswith("HL") else 2)
        sysm, states = hex_states(rep, name, **kw)
        per_state(rep, name + " paths", sysm, states, fn)
    return rep


def replay(doc):
    return replay_per_state(doc, make_fn(4 if doc.get("tier") == "thorough" else 3))
