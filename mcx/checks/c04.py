"""C04 — non-pruning tries never lose or alter history (DESIGN §5 C04)."""
from ..engine import explore, replay_doc
from ..report import Report
from ..sharedsys import SharedDbSys
from .common import run_hex, replay_hex


def run(tier, seed):
    rep = Report("C04", tier, seed, "fault_enumeration")
    rep.rule = ("A: append-only + content-addressed + closure-complete + reads-inside-closure on every transition of the closure BFS "
                "(direct ops and squash_changes batches, prune=False); B: exact-state depth-bounded search of two handles on one shared "
                "db (ops, batches, reopen at any historical root via constructor / at_root), every historical root re-read after every "
                "event; C: every transition re-executed once per db write position with that write failing (direct ops and batch commits); "
                "non-trivial = a state or an injected fault, distinct by canonical state / (state, event, write index)")
    rep.assumptions = ["a failing write raises a non-KeyError exception; one failure per operation (the post-failure state equals the pre-state, which the BFS expands)",
                       "alphabet of DESIGN §4", "depth bound of search B reported under parts"]
    P = ("C04",)
    # A + C
    _, r1 = run_hex(rep, "A/C: H5xSL direct + write faults", universe="H5", values=("S", "L"), prune=False, props=P, write_faults=True,
                    forms=("m", "i"))
    _, r2 = run_hex(rep, "A/C: H4xSL batch<=2 commit + failing commit writes", universe="H4", values=("S", "L"), prune=False, props=P,
                    batch_len=2, exits=("commit", "abort", "wfail"), direct=False)
    _, r3 = run_hex(rep, "A: H7xSL direct", universe="H7", values=("S", "L"), prune=False, props=P)
    run_hex(rep, "A/C: HCxSL batch<=2 (a transient node of the batch equals a node the batch creates elsewhere)", universe="HC", values=("S", "L"),
            prune=False, props=P, batch_len=2, exits=("commit", "abort", "wfail"))
    run_hex(rep, "A: H3xSL nested batches (a batch opened on the batch trie of a non-pruning trie)", universe="H3", values=("S", "L"), prune=False,
            props=P, batch_len=1, exits=("commit", "abort"), nested=True)
    from ..alphabet import Labels
    lab = Labels(seed)
    k = lab.keys("H3S")
    L = lab.value("L")
    long_batches = [[("set", k[0], L), ("set", k[1], L), ("set", k[2], L), ("set", k[3], L), ("del", k[0]), ("del", k[1])],
                    [("set", k[0], L), ("set", k[1], L), ("set", k[2], L), ("del", k[2])]]
    run_hex(rep, "A: H3Sx{L} direct + two long batches (a leaf referenced three times loses two references inside one batch)", universe="H3S",
            values=("L",), prune=False, props=P, extra_batches=long_batches, exits=("commit", "abort"))
    import itertools
    k4 = lab.keys("HS4")
    twin_batches = [[("set", a, L), ("set", b, L), ("del", c)] for a, b, c in itertools.permutations(k4, 3)]
    run_hex(rep, "A: HS4xSL direct + every batch [set a L, set b L, del c] (a branch collapses onto a leaf whose byte-identical twin, created in the "
            "same batch, lives elsewhere)", universe="HS4", values=("S", "L"), prune=False, props=P, extra_batches=twin_batches, exits=("commit", "abort"))
    faults = sum(r.stats.get("ev:opwf", 0) + r.stats.get("ev:batch:wfail", 0) for r in (r1, r2, r3))
    # B
    depth = 3
    sysm = SharedDbSys(universe="H4", values=("S", "L"), seed=seed, depth=depth)
    res = explore(sysm, depth_cap=depth, state_cap=10**7, replay_cap=3000)
    _addB(rep, f"B: shared db, 2 handles, H4xSL, depth {depth}", res, sysm)
    if tier == "thorough":
        _, r4 = run_hex(rep, "A/C: H7xSL direct + write faults", universe="H7", values=("S", "L"), prune=False, props=P, write_faults=True)
        _, r5 = run_hex(rep, "A/C: H5xST29L direct + write faults", universe="H5", values=("S", "T29", "L"), prune=False, props=P, write_faults=True)
        _, r6 = run_hex(rep, "A/C: HSxSL batch<=1 + failing commit writes", universe="HS", values=("S", "L"), prune=False, props=P,
                        batch_len=1, exits=("commit", "abort", "wfail"))
        faults += sum(r.stats.get("ev:opwf", 0) + r.stats.get("ev:batch:wfail", 0) for r in (r4, r5, r6))
        sysm = SharedDbSys(universe="H3", values=("L",), seed=seed, depth=6, batch2=4)
        res = explore(sysm, depth_cap=6, state_cap=10**7, replay_cap=3000)
        _addB(rep, "B: shared db, 2 handles, H3x{L}, depth 6", res, sysm)
        sysm = SharedDbSys(universe="H4", values=("S", "L"), seed=seed, depth=4, batch2=4)
        res = explore(sysm, depth_cap=4, state_cap=10**7, replay_cap=3000)
        _addB(rep, "B: shared db, 2 handles, H4xSL, depth 4", res, sysm)
    rep.cov["injected_write_failures"] = faults
    rep.evaluations = rep.transitions
    rep.nontrivial = rep.states + faults
    return rep


def _addB(rep, name, res, sysm):
    # a depth-bounded search is complete up to its bound: report the bound, not a cap hit
    bounded = res.capped is not None and res.capped.startswith("depth_cap")
    rep.add_bfs(name, res, sysm)
    if bounded:
        rep.caps = [c for c in rep.caps if not c.startswith(name)]
        rep.parts[-1]["exhaustive"] = f"all histories up to depth {res.max_depth} (bound reached, frontier of {len(res.levels) and res.levels[-1]} states at the last level)"
        rep.exhaustive = all(p.get("exhaustive") is not False for p in rep.parts)


def replay(doc):
    if doc["system"]["system"] == "HexSys":
        return replay_hex(doc)
    return replay_doc(lambda: SharedDbSys(**doc["system"]["kwargs"]), doc)
