"""A fog-guided walk over a HexaryTrie that may change between steps (DESIGN §5 C09).

Product state: trie x fog x frontier cache x set of (key, value) pairs met x oracle
bookkeeping (pairs unchanged since the start, pairs ever stored, mutations used).
Walker events: visit(p) for EVERY unexplored prefix p (this subsumes every query key of
nearest_unknown / nearest_right, which only ever return members - C11).  Mutator events:
any set/delete while the mutation budget lasts.  Cache-reset event (once).
"""
import collections

from trie.exceptions import MissingTraversalNode, TraversedPartialPath
from trie.fog import HexaryTrieFog, TrieFrontierCache
from trie.typing import HexaryTrieNode, NodeType
from trie.utils.nibbles import nibbles_to_bytes

from . import alphabet
from .engine import Step, digest, jsonable
from .fogsys import build as build_fog, members
from .hexsys import V, apply_op, restore, snapshot
from .ref import mpt


def tup(x):
    return tuple(tup(i) for i in x) if isinstance(x, (list, tuple)) else (bytes(x) if isinstance(x, (bytes, bytearray)) else x)


def lst(x):
    return [lst(i) for i in x] if isinstance(x, tuple) else x


def freeze_node(n):
    return (tuple(tuple(int(v) for v in s) for s in n.sub_segments), bytes(n.value), tuple(int(v) for v in n.suffix), tup(n.raw), int(n.node_type))


def thaw_node(f):
    return HexaryTrieNode(sub_segments=f[0], value=f[1], suffix=f[2], raw=lst(f[3]), node_type=NodeType(f[4]))


def freeze_cache(cache):
    if cache is None:
        return None
    return tuple(sorted((tuple(int(v) for v in p), freeze_node(n), tuple(int(v) for v in seg)) for p, (n, seg) in cache._cache.items()))


def thaw_cache(fc):
    if fc is None:
        return None
    c = TrieFrontierCache()
    # one add() per entry: add(parent_prefix, node, [seg]) files the entry under parent_prefix + seg
    for p, fn, seg in fc:
        parent = p[: len(p) - len(seg)]
        c.add(parent, thaw_node(fn), [seg])
    if freeze_cache(c) != fc:
        raise CacheNotIsolated()
    return c


class CacheNotIsolated(Exception):
    """a freshly created TrieFrontierCache filled with exactly the recorded entries holds something else: instances share state"""


class WalkSys:
    def __init__(self, *, universe="H5", values=("S", "L"), prune=False, use_cache=False, max_mut=1, seed=0, init="all", batch_mut=False,
                 mut_values=("S", "L"), root_via="traverse", regen=False, nested_mut=False):
        self.kw = dict(universe=universe, values=list(values), prune=prune, use_cache=use_cache, max_mut=max_mut, seed=seed, init=init,
                       batch_mut=batch_mut, mut_values=list(mut_values), root_via=root_via)
        if regen:
            self.kw["regen"] = True
        if nested_mut:
            self.kw["nested_mut"] = True
        self.regen = regen and prune  # the trie being walked and modified was re-opened with the counts regenerate_ref_count() reports
        self.root_via = root_via
        self.labels = alphabet.Labels(seed)
        self.keys = self.labels.keys(universe)
        self.vals = [self.labels.value(v) for v in values]
        self.prune = prune
        self.use_cache = use_cache
        self.max_mut = max_mut
        self.stats = collections.Counter()
        self.muts = []
        mv = [self.labels.value(v) for v in mut_values]
        for k in self.keys:
            for v in mv:
                self.muts.append((("set", k, v),))
            self.muts.append((("del", k),))
        if batch_mut:
            base = list(self.muts)
            for a in base[:: max(1, len(base) // 6)]:
                for b in base[1:: max(1, len(base) // 5)]:
                    if a[0][1] != b[0][1]:
                        self.muts.append((a[0], b[0]))
        if nested_mut:
            # an outer batch does a, a batch opened on the batch trie does b to the SAME key, both commit
            base = [q for q in self.muts if len(q) == 1]
            for a in base:
                for b in base:
                    if a[0][1] == b[0][1]:
                        self.muts.append(("nested", a[0], b[0]))
        self.init = init
        self._init_states = None

    def describe(self):
        return dict(system="WalkSys", kwargs=self.kw)

    # ------------------------------------------------------------------ initial states: every mapping of the universe
    def initial(self):
        if self._init_states is not None:
            return self._init_states
        from .engine import explore
        from .hexsys import HexSys
        hs = HexSys(universe=self.kw["universe"], values=tuple(self.kw["values"]), prune=self.prune, props=(), seed=self.kw["seed"])
        res = explore(hs, keep_states=True, validate_replays=False, workers=1)
        out = []
        for snap, model, hist in res.state_list:
            if self.init != "all" and len(model) not in self.init:
                continue
            items = frozenset(model.items())
            st = dict(trie=snap, fog=((),), cache=() if self.use_cache else None, met=frozenset(), stable=items, ever=items, nmut=0, reset=False)
            out.append((self._pack(st), dict(model)))
        self._init_states = out
        return out

    @staticmethod
    def _pack(st):
        return (st["trie"], st["fog"], st["cache"], st["met"], st["stable"], st["ever"], st["nmut"], st["reset"])

    @staticmethod
    def canon(snap):
        trie, fog, cache, met, stable, ever, nmut, reset = snap
        root, db, rc = trie
        return digest((root, sorted(db.items()), sorted(rc.items()) if rc is not None else None, fog, cache, sorted(met), sorted(stable),
                       sorted(ever), nmut, reset))

    def task_reset(self):
        from trie import HexaryTrie
        clear = getattr(getattr(HexaryTrie, "_cached_create_node_to_db_mapping", None), "cache_clear", None)
        if clear is not None:  # a memo of a pure function; cleared between tasks only to keep workers independent
            clear()

    def events(self, snap, model):
        trie, fog, cache, met, stable, ever, nmut, reset = snap
        evs = [("visit", p) for p in fog]
        if fog:
            if nmut < self.max_mut:
                for seq in self.muts:
                    evs.append(("mut", seq))
            if self.use_cache and not reset and cache:
                evs.append(("reset",))
        return evs

    # ------------------------------------------------------------------ transition
    def step(self, snap, model, ev):
        trie, fogm, fcache, met, stable, ever, nmut, reset = snap
        viols = []
        self.stats["ev:" + ev[0]] += 1
        if ev[0] == "reset":
            return Step((trie, fogm, (), met, stable, ever, nmut, True), model, viols)
        t = restore(trie, logdict=False)
        if ev[0] == "mut":
            m = dict(model)
            try:
                if self.regen:
                    t = self._reopen(t)
                self._apply_mut(t, m, ev[1])
            except Exception as e:  # noqa
                viols.append(V("C09", "mutation_raised", f"mutation raised {type(e).__name__}", exc=repr(e)[:160], prune=self.prune))
                return Step(None, m, viols)
            stable2 = frozenset((k, v) for k, v in stable if m.get(k) == v)
            ever2 = ever | frozenset(m.items())
            return Step((snapshot(t), fogm, fcache, met, stable2, ever2, nmut + 1, reset), m, viols)
        # ---- walker step
        p = ev[1]
        fog = build_fog(fogm)
        try:
            cache = thaw_cache(fcache)
        except CacheNotIsolated:
            viols.append(V("C09", "frontier_cache_not_isolated", "a new TrieFrontierCache holds entries it was never given (instances share state)",
                           prefix=p, prune=self.prune))
            return Step(None, model, viols)
        live = dict(t=t, fog=fog, cache=cache, met=set(met))
        err = self.visit(live, p)
        if err:
            viols.append(V("C09", err[0], err[1], prefix=p, prune=self.prune, form="cache" if self.use_cache else "root", **err[2]))
            return Step(None, model, viols)
        new = members(live["fog"])
        # strict refinement + bounded depth => every walk terminates
        maxlen = max([len(k) * 2 for k, _ in ever] + [0])
        added = set(new) - set(fogm)
        if p in new or any(len(q) <= len(p) or q[: len(p)] != p for q in added) or set(fogm) - {p} - set(new):
            viols.append(V("C09", "walk_not_refining", "a walk step did not replace the visited prefix by strictly longer continuations",
                           prefix=p, before=fogm, after=new))
        if any(len(q) > maxlen for q in added):
            viols.append(V("C09", "walk_unbounded", "a walk step produced a prefix longer than any key ever stored", prefix=p, after=new))
        post = (trie, new, freeze_cache(live["cache"]), frozenset(live["met"]), stable, ever, nmut, reset)
        if snapshot(t) != trie:
            viols.append(V("C09", "walk_changed_trie", "a walk step modified the trie"))
        return Step(post, model, viols)

    @staticmethod
    def _apply_mut(t, m, seq):
        if seq[0] == "nested":
            with t.squash_changes() as b:
                apply_op(b, m, seq[1])
                with b.squash_changes() as b2:
                    apply_op(b2, m, seq[2])
        elif len(seq) == 1:
            apply_op(t, m, seq[0])
        else:
            with t.squash_changes() as b:
                for op in seq:
                    apply_op(b, m, op)

    @staticmethod
    def _reopen(t):
        from trie import HexaryTrie
        return HexaryTrie(dict(t.db), bytes(bytearray(t.root_hash)), prune=True, ref_count=t.regenerate_ref_count())

    def visit(self, live, p):
        """one step of the walk protocol stated in the property; -> None or (check, msg, detail)"""
        t, fog, cache = live["t"], live["fog"], live["cache"]
        node = None
        for attempt in range(3):
            cached = None
            try:
                if cache is not None:
                    try:
                        cached = cache.get(p)
                    except KeyError:
                        cached = None
                if cached is not None:
                    node = t.traverse_from(cached[0], cached[1])
                elif self.root_via == "root_node" and len(p) > 0:
                    node = t.traverse_from(t.root_node, p)  # "from the root" the other way: the root's body, then the prefix
                else:
                    node = t.traverse(p)
            except TraversedPartialPath as e:
                node = e.simulated_node
            except MissingTraversalNode as e:
                if cached is not None and self.prune:
                    # a stale cached parent may point at a pruned child: forget it, go from the root
                    cache.delete(p)
                    self.stats["stale_cache_retry"] += 1
                    continue
                return ("walk_step_raised", "traversal raised MissingTraversalNode on a complete database", dict(exc=repr(e)[:160]))
            except Exception as e:  # noqa
                return ("walk_step_raised", f"traversal raised {type(e).__name__}", dict(exc=repr(e)[:160]))
            break
        if node is None:
            return ("walk_step_raised", "stale cache entry could not be bypassed", {})
        try:
            live["fog"] = fog.explore(p, node.sub_segments)
            if cache is not None:
                if node.sub_segments:
                    cache.add(p, node, node.sub_segments)
                else:
                    cache.delete(p)
            if node.value:
                key = nibbles_to_bytes(tuple(p) + tuple(node.suffix))
                live["met"].add((key, bytes(node.value)))
        except Exception as e:  # noqa
            return ("walk_step_raised", f"explore / cache / key reconstruction raised {type(e).__name__}", dict(exc=repr(e)[:160]))
        return None

    # ------------------------------------------------------------------ state invariants
    def state_check(self, snap, model):
        trie, fogm, fcache, met, stable, ever, nmut, reset = snap
        viols = []
        self.stats["states_checked"] += 1
        fog = build_fog(fogm)
        for p in fogm:
            try:
                a, b = tuple(fog.nearest_unknown(p)), tuple(fog.nearest_right(p))
            except Exception as e:  # noqa
                viols.append(V("C09", "fog_query_raised", f"nearest_* raised {type(e).__name__} for an unexplored prefix"))
                break
            if a != p or b != p:
                viols.append(V("C09", "fog_query_wrong", "nearest_unknown / nearest_right of an unexplored prefix is not that prefix", prefix=p))
                break
        if fogm:
            # a walker that sweeps to the right (nearest_right from the last key it handled) and treats PerfectVisibility as
            # "done": beyond the right-most unexplored prefix it must be told "nothing further right", never "nothing left"
            from trie.exceptions import PerfectVisibility
            last = list(fogm[-1])
            while last and last[-1] == 15:
                last.pop()
            beyond = tuple(last[:-1]) + (last[-1] + 1,) if last else None  # the first key to the right of everything unexplored
            if beyond is not None:
                try:
                    r = tuple(fog.nearest_right(beyond))
                    if r not in fogm:
                        viols.append(V("C09", "fog_query_wrong", "nearest_right returned something that is not unexplored", prefix=beyond))
                except PerfectVisibility:
                    viols.append(V("C09", "walk_ends_early", "a rightward sweep is told 'nothing is unexplored' (PerfectVisibility) while prefixes remain: "
                                   "the walk would stop with the fog incomplete", prefix=beyond, remaining=fogm))
                except Exception:  # noqa  (FullDirectionalVisibility: wrap around)
                    pass
        if not (met <= ever):
            viols.append(V("C09", "met_never_stored", "the walk met a key/value pair that was never stored", field="met",
                           extra=sorted(met - ever), mutations=nmut, prune=self.prune))
        if not fogm:
            self.stats["terminal"] += 1
            self.stats["terminal:mut=%d" % nmut] += 1
            if not fog.is_complete:
                viols.append(V("C09", "not_complete", "nothing left to visit but the fog is not complete"))
            if not (stable <= met):
                viols.append(V("C09", "stable_key_missed", "a key whose value never changed during the walk was not met", field="stable",
                               missed=sorted(stable - met), mutations=nmut, prune=self.prune, form="cache" if self.use_cache else "root"))
            if nmut == 0 and met != frozenset(model.items()):
                viols.append(V("C09", "walk_contents_wrong", "on an unchanging trie the walk did not meet exactly the contents", field="met",
                               met=sorted(met), model=model))
        return viols

    # ------------------------------------------------------------------ live replay: one long-lived trie / fog / cache
    def live_new(self, init_index):
        snap, model = self.initial()[init_index]
        t = restore(snap[0], logdict=False)
        if self.regen:
            t = self._reopen(t)
        return dict(t=t, fog=HexaryTrieFog(), cache=TrieFrontierCache() if self.use_cache else None, met=set(), model=dict(model),
                    stable=snap[4], ever=snap[5], nmut=0, reset=False)

    def live_apply(self, live, ev):
        if ev[0] == "visit":
            self.visit(live, ev[1])
        elif ev[0] == "reset":
            live["cache"] = TrieFrontierCache()
            live["reset"] = True
        else:
            m = live["model"]
            self._apply_mut(live["t"], m, ev[1])
            live["stable"] = frozenset((k, v) for k, v in live["stable"] if m.get(k) == v)
            live["ever"] = live["ever"] | frozenset(m.items())
            live["nmut"] += 1

    def live_canon(self, live):
        return self.canon((snapshot(live["t"]), members(live["fog"]), freeze_cache(live["cache"]), frozenset(live["met"]), live["stable"],
                           live["ever"], live["nmut"], live["reset"]))
