"""ScratchDB under exploration (DESIGN §5 C17).  Model: (wrapped dict, buffer dict key -> value | DEL)."""
import collections
import itertools

from trie.utils.db import ScratchDB

from .dbs import LogDict
from .engine import Step
from .hexsys import V

DEL = "<deleted>"


class Boom(Exception):
    pass


class Cancel(BaseException):
    """an exit that is not an Exception subclass (KeyboardInterrupt-like)"""


class ScratchSys:
    """snap = (wrapped items tuple, ops since the batch was opened (tuple) | None when closed, do_deletes)"""

    def __init__(self, *, keys=("k1", "k2", "k3"), values=("x", "y"), seed=0):
        self.kw = dict(keys=list(keys), values=list(values), seed=seed)
        self.keys = [k.encode() for k in keys]
        self.vals = [(v * (1 + seed % 3)).encode() for v in values]
        self.stats = collections.Counter()

    def describe(self):
        return dict(system="ScratchSys", kwargs=self.kw)

    def initial(self):
        out = []
        for combo in itertools.product([None] + self.vals, repeat=len(self.keys)):
            w = tuple(sorted((k, v) for k, v in zip(self.keys, combo) if v is not None))
            out.append(((w, None, False), None))
        return out

    def open_real(self, snap, observe=False):
        w, ops, dd = snap
        d = LogDict(dict(w))
        s = ScratchDB(d)
        cm = None
        if ops is not None:
            cm = s.batch_commit(do_deletes=dd)
            cm.__enter__()
            d.frozen = True
            for op in ops:
                if observe:
                    self.look(s)
                self.apply(s, op)
            if observe:
                self.look(s)
        return d, s, cm

    def look(self, s):
        """an observing caller: reads and membership tests of every key (results are judged in state_check; here they only
        happen, on the object that goes on to perform the next operation)"""
        for k in self.keys:
            try:
                s[k]
            except KeyError:
                pass
            k in s  # noqa

    @staticmethod
    def apply(s, op):
        if op[0] == "set":
            s[op[1]] = op[2]
        else:
            del s[op[1]]

    @staticmethod
    def buffer_of(ops):
        buf = {}
        for op in ops or ():
            buf[op[1]] = op[2] if op[0] == "set" else DEL
        return buf

    def canon(self, snap):
        # the REAL buffer (ScratchDB.cache), not the model's: two op sequences with the same model buffer but different
        # real buffers must stay different states (a canonical form derived from the model would hide exactly the bugs
        # that make the real buffer drift from the model)
        w, ops, dd = snap
        if ops is None:
            return (w, None, False)
        d, s, cm = self.open_real(snap)
        return (w, self.real_buffer(s), dd)

    @staticmethod
    def real_buffer(s):
        from trie.utils.db import DELETED
        return tuple(sorted((k, DEL if v is DELETED else v) for k, v in s.cache.items()))

    def events(self, snap, model):
        w, ops, dd = snap
        if ops is None:
            return [("open", False), ("open", True)]
        evs = []
        for k in self.keys:
            for v in self.vals:
                evs.append(("set", k, v))
            evs.append(("del", k))
        evs += [("exit",), ("raise",), ("cancel",), ("exit_in_handler",)]
        # a SECOND batch on the same ScratchDB object right after a normal exit
        for dd2 in (False, True):
            for k in self.keys:
                evs.append(("exit2", dd2, (("del", k),)))
                evs.append(("exit2", dd2, (("set", k, self.vals[0]),)))
                evs.append(("exit2", dd2, (("set", k, self.vals[-1]), ("del", k))))
        return evs

    def step(self, snap, model, ev):
        w, ops, dd = snap
        viols = []
        self.stats["ev:" + ev[0]] += 1
        if ev[0] == "open":
            return Step((w, (), ev[1]), (), viols)
        d, s, cm = self.open_real(snap, observe=True)
        if ev[0] in ("set", "del"):
            try:
                self.apply(s, ev)
            except Exception as e:  # noqa
                viols.append(V("C17", "op_raised", f"{ev[0]} on an open ScratchDB raised {type(e).__name__}", event=ev[0], exc=repr(e)[:120]))
                return Step(None, None, viols)
            if d.mutations_while_frozen:
                viols.append(V("C17", "wrapped_written_while_open", "the wrapped database was written while the batch was open", event=ev[0]))
            # the model buffer travels as the engine's model: if two histories reach the same REAL state (wrapped, real buffer)
            # with different model buffers, the engine reports it (the real buffer has drifted from what was asked)
            return Step((w, ops + (ev,), dd), tuple(sorted(self.buffer_of(ops + (ev,)).items())), viols)
        buf = self.buffer_of(ops)
        pre = d.plain()
        d.frozen = False
        d.reset_log()
        if ev[0] in ("exit", "exit2", "exit_in_handler"):
            try:
                if ev[0] == "exit_in_handler":
                    try:
                        raise ValueError("an unrelated error the caller is recovering from")
                    except ValueError:
                        cm.__exit__(None, None, None)  # a normal exit of the batch, inside an except block
                else:
                    cm.__exit__(None, None, None)
            except Exception as e:  # noqa
                viols.append(V("C17", "commit_raised", f"normal exit raised {type(e).__name__}", event="exit", exc=repr(e)[:120]))
                return Step(None, None, viols)
            want = dict(pre)
            for k, v in buf.items():
                if v is DEL:
                    if dd:
                        want.pop(k, None)
                else:
                    want[k] = v
            if d.plain() != want:
                viols.append(V("C17", "commit_wrong", "after a normal exit the wrapped database is not the buffer applied with last-write-wins "
                               "(deletes only if requested)", event="exit", field="wrapped", do_deletes=dd, buffer=buf, before=pre, got=d.plain(), want=want))
            if ev[0] == "exit2" and not viols:
                # same object, next batch: observe, operate, observe, commit
                _, dd2, seq2 = ev
                pre2 = d.plain()
                self.look(s)
                cm2 = s.batch_commit(do_deletes=dd2)
                cm2.__enter__()
                try:
                    for op in seq2:
                        self.look(s)
                        self.apply(s, op)
                    self.look(s)
                    cm2.__exit__(None, None, None)
                except Exception as e:  # noqa
                    viols.append(V("C17", "commit_raised", f"a second batch on the same object raised {type(e).__name__}", event="exit2", exc=repr(e)[:120]))
                    return Step(None, None, viols)
                want2 = dict(pre2)
                for k, v in self.buffer_of(seq2).items():
                    if v is DEL:
                        if dd2:
                            want2.pop(k, None)
                    else:
                        want2[k] = v
                if d.plain() != want2:
                    viols.append(V("C17", "second_batch_wrong", "a second batch on the same ScratchDB object did not commit what it buffered",
                                   event="exit2", field="wrapped", do_deletes=dd2, ops=seq2, before=pre2, got=d.plain(), want=want2))
        else:
            cancel = ev[0] == "cancel"
            exc = Cancel("cancel") if cancel else Boom("boom")
            try:
                r = cm.__exit__(type(exc), exc, None)
                if r:
                    viols.append(V("C17", "exception_swallowed", "the exception that left the block was swallowed", event="raise"))
            except (Boom, Cancel) as e:
                if e is not exc:
                    viols.append(V("C17", "different_exception", "a different exception object was re-raised", event="raise"))
            except Exception as e:  # noqa
                viols.append(V("C17", "different_exception", f"exceptional exit raised {type(e).__name__}", event="raise"))
            if d.plain() != pre or d.writes or d.dels:
                viols.append(V("C17", "abort_changed_wrapped", "after an exceptional exit the wrapped database is not exactly as it was", event="raise",
                               field="wrapped", before=pre, got=d.plain()))
        if s.cache != {}:
            viols.append(V("C17", "buffer_not_empty", "the buffer is not empty after the batch ended", event=ev[0], cache=repr(s.cache)[:120]))
        return Step((tuple(sorted(d.plain().items())), None, False), None, viols)

    def state_check(self, snap, model):
        w, ops, dd = snap
        viols = []
        self.stats["states_checked"] += 1
        if ops is None:
            return viols
        d, s, cm = self.open_real(snap)
        if d.mutations_while_frozen:
            viols.append(V("C17", "wrapped_written_while_open", "the wrapped database was written while the batch was open"))
        wrapped = dict(w)
        buf = self.buffer_of(ops)
        cache_before = dict(s.cache)
        for k in self.keys + [b"absent"]:
            if k in buf and buf[k] is not DEL:
                want = buf[k]
            else:
                want = wrapped.get(k)  # read-through, also after a buffered delete
            try:
                got = s[k]
            except KeyError:
                got = None
            except Exception as e:  # noqa
                viols.append(V("C17", "read_raised", f"reading raised {type(e).__name__}", key=k))
                continue
            if got != want:
                viols.append(V("C17", "read_wrong", "a read does not see the latest buffered write / does not read through after a buffered delete",
                               key=k, got=got, want=want, buffer=buf, wrapped=wrapped))
            try:
                if (k in s) != (want is not None):
                    viols.append(V("C17", "contains_wrong", "membership disagrees with what a read returns", key=k, buffer=buf, wrapped=wrapped))
            except Exception as e:  # noqa
                viols.append(V("C17", "read_raised", f"membership raised {type(e).__name__}", key=k))
        try:
            c = s.copy()
            for k in self.keys:
                if k in buf and buf[k] is not DEL:
                    if c.get(k) != buf[k]:
                        viols.append(V("C17", "copy_wrong", "copy() does not show a buffered write", key=k))
                elif k not in buf:
                    if c.get(k) != wrapped.get(k) or (k in c) != (k in wrapped):
                        viols.append(V("C17", "copy_wrong", "copy() does not show an untouched key as in the wrapped database", key=k))
            if set(c) - set(self.keys):
                viols.append(V("C17", "copy_wrong", "copy() lists foreign keys"))
            for k, v in c.items():
                if not isinstance(v, bytes):
                    viols.append(V("C17", "copy_wrong", "copy() exposes something that is not a stored value (an internal marker?)", key=k, value=repr(v)[:40]))
                    break
                if buf.get(k) is DEL and k not in wrapped:
                    viols.append(V("C17", "copy_wrong", "copy() lists a key whose latest action is a delete and that does not exist underneath", key=k))
                    break
        except Exception as e:  # noqa
            viols.append(V("C17", "copy_raised", f"copy() raised {type(e).__name__}"))
        if dict(s.cache) != cache_before or d.mutations_while_frozen or d.plain() != wrapped:
            viols.append(V("C17", "read_side_effect", "reads / membership / copy() changed the buffer or the wrapped database"))
        return viols

    # live replay on ONE long-lived ScratchDB object (several batches on the same object)
    def live_new(self, i):
        w = dict(self.initial()[i][0][0])
        d = LogDict(w)
        return dict(d=d, s=ScratchDB(d), cm=None, ops=None, dd=False)

    def live_apply(self, live, ev):
        s = live["s"]
        if ev[0] == "open":
            live["cm"] = s.batch_commit(do_deletes=ev[1])
            live["cm"].__enter__()
            live["ops"], live["dd"] = (), ev[1]
        elif ev[0] in ("set", "del"):
            self.apply(s, ev)
            live["ops"] += (ev,)
        elif ev[0] in ("exit", "exit_in_handler"):
            live["cm"].__exit__(None, None, None)
            live["ops"] = None
        elif ev[0] == "exit2":
            live["cm"].__exit__(None, None, None)
            cm2 = s.batch_commit(do_deletes=ev[1])
            cm2.__enter__()
            for op in ev[2]:
                self.apply(s, op)
            cm2.__exit__(None, None, None)
            live["ops"] = None
        else:
            exc = Cancel("cancel") if ev[0] == "cancel" else Boom("boom")
            try:
                live["cm"].__exit__(type(exc), exc, None)
            except (Boom, Cancel):
                pass
            live["ops"] = None

    def live_canon(self, live):
        # the canonical form is derived from the REAL buffer here (not from the op list)
        w = tuple(sorted(live["d"].plain().items()))
        if live["ops"] is None:
            return (w, None, False)
        return (w, self.real_buffer(live["s"]), live["dd"])
