"""Independent reference for SparseMerkleTree: contents -> full-depth Merkle root, sibling lists, path hashes.

Leaf hash = keccak(value or default); inner hash = keccak(left || right); depth = 8 * key_size; keys MSB first.
Sparse recursion with memoised default-subtree hashes.
"""
from .mpt import keccak


class Smt:
    def __init__(self, key_size, default):
        self.key_size = key_size
        self.depth = key_size * 8
        self.default = default
        # dflt[d] = hash of a subtree of height d (d = 0: a leaf) holding only defaults
        self.dflt = [keccak(default)]
        for _ in range(self.depth):
            self.dflt.append(keccak(self.dflt[-1] + self.dflt[-1]))
        self._rc, self._wc = {}, {}

    def val(self, m, k):
        return m.get(k, self.default)

    def _h(self, items, height, lo):
        """hash of the subtree of given height whose left-most key is lo; items = sorted [(int key, value)] inside it"""
        if not items:
            return self.dflt[height]
        if height == 0:
            return keccak(items[0][1])
        half = 1 << (height - 1)
        mid = lo + half
        left = [it for it in items if it[0] < mid]
        right = [it for it in items if it[0] >= mid]
        return keccak(self._h(left, height - 1, lo) + self._h(right, height - 1, mid))

    def items(self, m):
        return sorted((int.from_bytes(k, "big"), v) for k, v in m.items())

    def root(self, m):
        key = frozenset(m.items())
        r = self._rc.get(key)
        if r is None:
            if len(self._rc) > 50000:
                self._rc.clear()
            r = self._rc[key] = self._h(self.items(m), self.depth, 0)
        return r

    def walk(self, m, key):
        """-> (siblings root->leaf, hashes of the key's path nodes at depth 1..depth)"""
        ck = (frozenset(m.items()), key)
        r = self._wc.get(ck)
        if r is not None:
            return r
        if len(self._wc) > 50000:
            self._wc.clear()
        items = self.items(m)
        k = int.from_bytes(key, "big")
        sib = []
        lo, height = 0, self.depth
        while height > 0:
            half = 1 << (height - 1)
            mid = lo + half
            left = [it for it in items if it[0] < mid]
            right = [it for it in items if it[0] >= mid]
            if k < mid:
                sib.append(self._h(right, height - 1, mid))
                items = left
            else:
                sib.append(self._h(left, height - 1, lo))
                items, lo = right, mid
            height -= 1
        # the key's own path, leaf upwards: each node is the hash of (itself-below, sibling) in key-bit order
        h = keccak(self.val(m, key))
        path = [h]
        for i, s in enumerate(reversed(sib)):
            h = keccak(s + h) if (k >> i) & 1 else keccak(h + s)
            path.append(h)
        assert path[-1] == self.root(m)
        path = tuple(reversed(path[:-1]))
        r = self._wc[ck] = (tuple(sib), path)
        return r

    def fold(self, key, value, siblings):
        """root from a key, its value and its sibling list (what calc_root must compute)"""
        k = int.from_bytes(key, "big")
        h = keccak(value)
        for i, s in enumerate(reversed(siblings)):
            h = keccak(s + h) if (k >> i) & 1 else keccak(h + s)
        return h


def selftest():
    # empty-tree roots published in py-trie's own constants test (tests/core/test_constants.py): depth-256 tree of blank leaves
    s = Smt(32, b"")
    assert s.dflt[0].hex() == "c5d2460186f7233c927e7db2dcc703c0e500b653ca82273b7bfad8045d85a470"
    # structural self-consistency on a small tree
    t = Smt(1, b"")
    m = {b"\x00": b"a", b"\x81": b"bb"}
    r = t.root(m)
    for k in (b"\x00", b"\x81", b"\x40"):
        sib, path = t.walk(m, k)
        assert t.fold(k, t.val(m, k), sib) == r
        assert path[-1] == keccak(t.val(m, k)) and len(path) == 8
    assert t.root({}) == t.dflt[8]
    # hand-computed depth-8 root with a single key 0x00 -> 'a'
    h = keccak(b"a")
    for d in range(8):
        h = keccak(h + t.dflt[d])
    assert t.root({b"\x00": b"a"}) == h
    # literal vector from the calc_root docstring of py-trie
    assert t.fold(b"\x02", b"", [b"\x00"] * 8) == b".+4IKt[\xd2\x14\xe4).\xf5\xc6\n\x11=\x01\xe89\xa1Z\x07#\xfd~(;\xfb\xb8\x8a\x0e"
    return True
