"""Independent reference for the Ethereum Merkle Patricia trie (Yellow Paper, App. D).

Declarative: contents (a dict bytes->bytes) -> canonical node tree -> root, node set,
reference-path counts, node positions.  Shares no code with ``trie/``: own Keccak
binding (pycryptodome), own RLP encoder/decoder, own hex-prefix function.
"""
from Crypto.Hash import keccak as _k


def keccak(b):
    h = _k.new(digest_bits=256)
    h.update(b)
    return h.digest()


# ----------------------------------------------------------------------------- RLP
def _len(n, off):
    if n < 56:
        return bytes([off + n])
    bl = n.to_bytes((n.bit_length() + 7) // 8, "big")
    return bytes([off + 55 + len(bl)]) + bl


def rlp(x):
    if isinstance(x, (bytes, bytearray)):
        x = bytes(x)
        if len(x) == 1 and x[0] < 0x80:
            return x
        return _len(len(x), 0x80) + x
    payload = b"".join(rlp(i) for i in x)
    return _len(len(payload), 0xC0) + payload


def rlp_decode(b):
    item, rest = _dec(b)
    if rest:
        raise ValueError("trailing bytes")
    return item


def _dec(b):
    if not b:
        raise ValueError("empty")
    p = b[0]
    if p < 0x80:
        return b[:1], b[1:]
    if p < 0xB8:
        n = p - 0x80
        return b[1 : 1 + n], b[1 + n :]
    if p < 0xC0:
        ll = p - 0xB7
        n = int.from_bytes(b[1 : 1 + ll], "big")
        return b[1 + ll : 1 + ll + n], b[1 + ll + n :]
    if p < 0xF8:
        n = p - 0xC0
        payload, rest = b[1 : 1 + n], b[1 + n :]
    else:
        ll = p - 0xF7
        n = int.from_bytes(b[1 : 1 + ll], "big")
        payload, rest = b[1 + ll : 1 + ll + n], b[1 + ll + n :]
    out = []
    while payload:
        it, payload = _dec(payload)
        out.append(it)
    return out, rest


# ----------------------------------------------------------------------------- HP
def hp(nibs, t):
    """Yellow Paper HP(x, t)."""
    nibs = list(nibs)
    f = 2 if t else 0
    if len(nibs) % 2:
        nibs = [f + 1] + nibs
    else:
        nibs = [f, 0] + nibs
    return bytes(nibs[i] * 16 + nibs[i + 1] for i in range(0, len(nibs), 2))


def hp_decode(b):
    """-> (nibbles tuple, terminator flag)"""
    ns = []
    for c in b:
        ns += [c >> 4, c & 15]
    flag = ns[0]
    t = bool(flag & 2)
    if flag & 1:
        return tuple(ns[1:]), t
    return tuple(ns[2:]), t


def nib(b):
    out = []
    for c in b:
        out += [c >> 4, c & 15]
    return tuple(out)


def unnib(ns):
    assert len(ns) % 2 == 0
    return bytes(ns[i] * 16 + ns[i + 1] for i in range(0, len(ns), 2))


BLANK_ROOT = keccak(rlp(b""))


# ----------------------------------------------------------------------------- tree
class N:
    """A canonical node, built from contents."""

    __slots__ = ("kind", "pos", "seg", "value", "children", "raw", "enc", "hashed", "ref", "hash")

    def __repr__(self):
        return f"N({self.kind}@{self.pos} seg={self.seg} v={self.value[:4]!r} hashed={self.hashed})"


def _build(items, depth, is_root):
    """items: sorted list of (nibbles, value) all sharing nibbles[:depth]."""
    if not items:
        return None
    n = N()
    n.pos = items[0][0][:depth]
    if len(items) == 1:
        k, v = items[0]
        n.kind = "leaf"
        n.seg = k[depth:]
        n.value = v
        n.children = {}
        n.raw = [hp(n.seg, True), v]
    else:
        first = items[0][0]
        shortest = min(len(k) for k, _ in items)
        i = depth
        while i < shortest and all(k[i] == first[i] for k, _ in items):
            i += 1
        if i > depth:
            n.kind = "ext"
            n.seg = first[depth:i]
            n.value = b""
            child = _build(items, i, False)
            n.children = {n.seg: child}
            n.raw = [hp(n.seg, False), child.ref]
        else:
            n.kind = "branch"
            n.seg = ()
            vals = [v for k, v in items if len(k) == depth]
            n.value = vals[0] if vals else b""
            n.children = {}
            raw = []
            for j in range(16):
                sub = [(k, v) for k, v in items if len(k) > depth and k[depth] == j]
                c = _build(sub, depth + 1, False)
                if c is None:
                    raw.append(b"")
                else:
                    n.children[(j,)] = c
                    raw.append(c.ref)
            raw.append(n.value)
            n.raw = raw
    n.enc = rlp(n.raw)
    n.hashed = is_root or len(n.enc) >= 32
    n.hash = keccak(n.enc) if n.hashed else None
    n.ref = keccak(n.enc) if len(n.enc) >= 32 else n.raw
    return n


_tree_cache = {}


def tree(m):
    key = frozenset(m.items())
    t = _tree_cache.get(key)
    if t is None and key not in _tree_cache:
        if len(_tree_cache) > 200000:
            _tree_cache.clear()
        items = sorted((nib(k), v) for k, v in m.items())
        t = _build(items, 0, True)
        _tree_cache[key] = t
    return t


def root(m):
    t = tree(m)
    return BLANK_ROOT if t is None else t.hash


def walk(t):
    """pre-order: parents first, children left to right"""
    if t is None:
        return
    stack = [t]
    while stack:
        n = stack.pop()
        yield n
        for seg in sorted(n.children, reverse=True):
            stack.append(n.children[seg])


_nodes_cache = {}


def nodes(m):
    """-> (counts: hash -> number of reference paths, bodies: hash -> rlp)"""
    key = frozenset(m.items())
    r = _nodes_cache.get(key)
    if r is None:
        if len(_nodes_cache) > 200000:
            _nodes_cache.clear()
        counts, bodies = {}, {}
        for n in walk(tree(m)):
            if n.hashed:
                counts[n.hash] = counts.get(n.hash, 0) + 1
                bodies[n.hash] = n.enc
        r = (counts, bodies)
        _nodes_cache[key] = r
    return r


def path(m, key_nibbles):
    """Nodes on the path of a key (nibble tuple), root first.

    A node is on the path if the lookup of the key must decode it: descend while
    the key has nibbles left and the node's segment/slot matches.
    """
    out = []
    n = tree(m)
    k = tuple(key_nibbles)
    while n is not None:
        out.append(n)
        rest = k[len(n.pos) :]
        if n.kind == "leaf":
            break
        if n.kind == "ext":
            if rest[: len(n.seg)] == n.seg and len(rest) >= len(n.seg):
                n = n.children[n.seg]
            else:
                break
        else:
            if not rest:
                break
            n = n.children.get((rest[0],))
    return out


def positions(m):
    """pre-order list of dicts describing each canonical node"""
    out = []
    for n in walk(tree(m)):
        if n.kind == "leaf":
            out.append(dict(pos=n.pos, type="leaf", sub_segments=(), value=n.value, suffix=n.seg))
        elif n.kind == "ext":
            out.append(dict(pos=n.pos, type="ext", sub_segments=(n.seg,), value=b"", suffix=()))
        else:
            out.append(
                dict(
                    pos=n.pos,
                    type="branch",
                    sub_segments=tuple(sorted(n.children)),
                    value=n.value,
                    suffix=(),
                )
            )
    return out


def node_at(m, p):
    """Classify nibble path p against the canonical trie.

    -> ('blank',) if no stored key starts with p
       ('node', N) if a node sits exactly at p
       ('partial', N, tail) if p ends strictly inside leaf/extension N (tail = p[len(N.pos):])
    """
    p = tuple(p)
    if not any(nib(k)[: len(p)] == p for k in m):
        return ("blank",)
    n = tree(m)
    while True:
        if n.pos == p:
            return ("node", n)
        rest = p[len(n.pos) :]
        if n.kind == "branch":
            n = n.children[(rest[0],)]
        elif n.kind == "ext":
            if len(rest) >= len(n.seg):
                n = n.children[n.seg]
            else:
                return ("partial", n, rest)
        else:
            return ("partial", n, rest)


def closure(db, root_hash):
    """Entries of db reachable from root_hash through hash pointers (independent decode).

    -> (dict hash->body, set of missing hashes)
    """
    out, missing = {}, set()
    if root_hash == BLANK_ROOT:
        return out, missing
    stack = [root_hash]
    while stack:
        h = stack.pop()
        if h in out or h in missing:
            continue
        body = db.get(h)
        if body is None:
            missing.add(h)
            continue
        out[h] = body
        _refs(rlp_decode(body), stack)
    return out, missing


def _refs(node, stack):
    if isinstance(node, bytes):
        return
    if len(node) == 17:
        for c in node[:16]:
            if isinstance(c, list):
                _refs(c, stack)
            elif len(c) == 32:
                stack.append(c)
    elif len(node) == 2:
        _, t = hp_decode(node[0])
        if not t:
            c = node[1]
            if isinstance(c, list):
                _refs(c, stack)
            elif len(c) == 32:
                stack.append(c)


def selftest():
    assert BLANK_ROOT.hex() == "56e81f171bcc55a6ff8345e692c0f86e5b48e01b996cadc001622fb5e363b421"
    m = {b"doe": b"reindeer", b"dog": b"puppy", b"dogglesworth": b"cat"}
    assert root(m).hex() == "8aad789dff2f538bca5d8ea56e8abe10f4c7ba3a5dea95fea4cd6e7c3a1168d3", root(m).hex()
    m = {b"do": b"verb", b"horse": b"stallion", b"doge": b"coin", b"dog": b"puppy"}
    assert root(m).hex() == "5991bb8c6514148a29db676a14ac506cd2cd5775ace63c30a4fe457715e9ac84", root(m).hex()
    # HP examples, Yellow Paper appendix C / wiki
    assert hp([1, 2, 3, 4, 5], False) == bytes.fromhex("112345")
    assert hp([0, 1, 2, 3, 4, 5], False) == bytes.fromhex("00012345")
    assert hp([0, 15, 1, 12, 11, 8], True) == bytes.fromhex("200f1cb8")
    assert hp([15, 1, 12, 11, 8], True) == bytes.fromhex("3f1cb8")
    for x in ([], [b""], b"\x00", b"\x7f", b"\x80", b"a" * 55, b"a" * 56, [b"a" * 60, [b"b", b""]], b"a" * 300):
        assert rlp_decode(rlp(x)) == x, x
    assert rlp(b"dog") == b"\x83dog" and rlp([b"cat", b"dog"]) == b"\xc8\x83cat\x83dog"
    assert rlp(b"") == b"\x80" and rlp([]) == b"\xc0" and rlp(b"\x0f") == b"\x0f"
    assert rlp(b"\x04\x00") == b"\x82\x04\x00"
    assert rlp([[], [[]], [[], [[]]]]) == bytes.fromhex("c7c0c1c0c3c0c1c0")
    assert rlp(b"Lorem ipsum dolor sit amet, consectetur adipisicing elit")[:2] == b"\xb8\x38"
    return True


if __name__ == "__main__":
    print(selftest())
