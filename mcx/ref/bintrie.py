"""Independent reference for py-trie's BinaryTrie: contents (prefix-free dict) -> canonical nodes -> root.

Node encodings (from the format, not from trie/): leaf = 0x02 || value; branch = 0x01 || left(32) || right(32);
kv = 0x00 || packed bit path || child(32).  Bit-path packing: pad the path on the left to a multiple of 4 bits,
prepend the 2-bit value (len mod 4), then 00 if that makes whole bytes, else 100000; pack MSB first.
"""
from .mpt import keccak

BLANK = keccak(b"")


def bits(b):
    return tuple((c >> (7 - i)) & 1 for c in b for i in range(8))


def unbits(bs):
    assert len(bs) % 8 == 0
    return bytes(sum(bit << (7 - i) for i, bit in enumerate(bs[j:j + 8])) for j in range(0, len(bs), 8))


def pack_path(path):
    path = list(path)
    L = len(path)
    padded = [0] * ((4 - L) % 4) + path
    pre = [(L % 4) >> 1, (L % 4) & 1]
    if len(padded) % 8 == 4:
        allbits = [0, 0] + pre + padded
    else:
        allbits = [1, 0, 0, 0, 0, 0] + pre + padded
    assert len(allbits) % 8 == 0
    return unbits(allbits)


def unpack_path(b):
    bs = list(bits(b))
    if bs[0] == 1:
        bs = bs[4:]
    assert bs[0:2] == [0, 0]
    lm = bs[2] * 2 + bs[3]
    return tuple(bs[4 + ((4 - lm) % 4):])


def enc_leaf(value):
    return b"\x02" + value


def enc_branch(l, r):
    return b"\x01" + l + r


def enc_kv(path, child):
    return b"\x00" + pack_path(path) + child


def _build(items, out):
    """items: sorted [(bit tuple, value)], prefix-free, non-empty -> hash; encodings collected in out"""
    if len(items) == 1 and not items[0][0]:
        e = enc_leaf(items[0][1])
    else:
        first = items[0][0]
        n = min(len(k) for k, _ in items)
        i = 0
        while i < n and all(k[i] == first[i] for k, _ in items):
            i += 1
        if i > 0:
            child = _build([(k[i:], v) for k, v in items], out)
            e = enc_kv(first[:i], child)
        else:
            left = [(k[1:], v) for k, v in items if k[0] == 0]
            right = [(k[1:], v) for k, v in items if k[0] == 1]
            e = enc_branch(_build(left, out), _build(right, out))
    h = keccak(e)
    out[h] = e
    return h


_cache = {}


def build(m):
    """-> (root hash, {hash: encoding} of every node reachable from the root)"""
    key = frozenset(m.items())
    r = _cache.get(key)
    if r is None:
        if len(_cache) > 100000:
            _cache.clear()
        out = {}
        if not m:
            r = (BLANK, out)
        else:
            r = (_build(sorted((bits(k), v) for k, v in m.items()), out), out)
        _cache[key] = r
    return r


def root(m):
    return build(m)[0]


def nodes(m):
    return build(m)[1]


def parse(e):
    """independent decode -> ('leaf', value) | ('branch', l, r) | ('kv', path, child)"""
    if e[0] == 2:
        return ("leaf", e[1:])
    if e[0] == 1:
        assert len(e) == 65
        return ("branch", e[1:33], e[33:])
    assert e[0] == 0
    return ("kv", unpack_path(e[1:-32]), e[-32:])


def closure(db, root_hash):
    out, missing = {}, set()
    stack = [root_hash]
    while stack:
        h = stack.pop()
        if h == BLANK or h in out or h in missing:
            continue
        e = db.get(h)
        if e is None:
            missing.add(h)
            continue
        out[h] = e
        p = parse(e)
        if p[0] == "branch":
            stack += [p[1], p[2]]
        elif p[0] == "kv":
            stack.append(p[2])
    return out, missing


def conflicts(m, k):
    """k is a proper prefix or a proper extension of a stored key"""
    return any(s != k and (s.startswith(k) or k.startswith(s)) for s in m)


def extends_stored(m, k):
    return any(s != k and k.startswith(s) for s in m)


def ref_get(db, root_hash, key):
    """independent lookup through hash pointers -> value | None | KeyError if a node is missing"""
    k = bits(key)
    h = root_hash
    while True:
        if h == BLANK:
            return None
        p = parse(db[h])
        if p[0] == "leaf":
            return p[1] if not k else None
        if not k:
            return None
        if p[0] == "kv":
            if k[: len(p[1])] != p[1]:
                return None
            k, h = k[len(p[1]):], p[2]
        else:
            h = p[1] if k[0] == 0 else p[2]
            k = k[1:]


def selftest():
    assert BLANK.hex() == "c5d2460186f7233c927e7db2dcc703c0e500b653ca82273b7bfad8045d85a470"
    for L in range(1, 40):
        for pat in (0, 1, 0b1011001110001111):
            p = tuple((pat >> (i % 16)) & 1 for i in range(L))
            assert unpack_path(pack_path(p)) == p, (L, p)
    # known packing examples from the py-trie test-suite (tests/core/test_binaries_utils.py)
    # literal vectors from the py-trie repository's own node tests
    assert pack_path((0,)) == b"\x10"
    assert unpack_path(b"\x03\x04\x05") == (0, 0, 1, 1, 0, 0, 0, 0, 0, 1, 0, 0, 0, 0, 0, 0, 0, 1, 0, 1)
    assert pack_path(unpack_path(b"\x03\x04\x05")) == b"\x03\x04\x05"
    # a single key: kv(path, leaf)
    m = {b"\x12": b"v"}
    leaf = keccak(b"\x02v")
    assert root(m) == keccak(b"\x00" + pack_path(bits(b"\x12")) + leaf)
    # two keys differing in the last bit: kv(7 bits, branch(leaf0, leaf1))
    m = {b"\x00": b"a", b"\x01": b"b"}
    br = keccak(b"\x01" + keccak(b"\x02a") + keccak(b"\x02b"))
    assert root(m) == keccak(b"\x00" + pack_path((0,) * 7) + br)
    return True
