"""Per-state exhaustive enumeration on top of a closure BFS (DESIGN §2.1, shapes 2 and 3).

``hex_states`` runs the plain HexSys closure BFS (no property checks) and returns every
reachable state with its shortest history.  ``per_state`` evaluates a function on every
state in parallel; the function enumerates its faults / inputs itself and returns an
``Out``.  A violation carries the history of its state, so a replay = rebuild the state
through the real API, run the same function on that one state, look for the same
signature.
"""
import collections

from .engine import explore, pmap, unjson, jsonable, HarnessError
from .hexsys import HexSys


class Out:
    __slots__ = ("evals", "nontrivial", "viols", "stats", "samples")

    def __init__(self):
        self.evals = 0
        self.nontrivial = 0
        self.viols = []
        self.stats = collections.Counter()
        self.samples = []

    def viol(self, prop, check, msg, **detail):
        if len(self.viols) < 6:
            sig = dict(check=check)
            for k in ("field", "prune", "event", "form", "call", "kind"):
                if k in detail:
                    sig[k] = detail[k]
            self.viols.append(dict(prop=prop, check=check, sig=sig, msg=msg, detail=jsonable(detail)))
        self.stats["violations"] += 1


def hex_states(rep, name, **kw):
    """closure BFS without property checks -> (sysm, [(snap, model, hist), ...])"""
    kw.setdefault("props", ())
    explore_kw = dict(keep_states=True)
    for k in ("state_cap", "depth_cap"):
        if k in kw:
            explore_kw[k] = kw.pop(k)
    sysm = HexSys(seed=rep.seed, **kw)
    explore_kw.setdefault("state_cap", 2 * (len(sysm.vals) + 1) ** len(sysm.keys) + 50)
    res = explore(sysm, **explore_kw)
    rep.add_bfs(name + " [state set]", res, sysm, keep_samples=1)
    return sysm, res.state_list


def per_state(rep, name, sysm, states, fn, *, max_samples=3, describe=None):
    """fn(sysm, snap, model) -> Out, evaluated on every state (parallel, ordered merge)"""
    n = len(states)
    nchunks = max(1, min(n, 64))
    size = (n + nchunks - 1) // nchunks
    chunks = [(list(range(j, min(n, j + size))),) for j in range(0, n, size)]

    def work(idxs):
        if hasattr(sysm, "task_reset"):
            sysm.task_reset()
        outs = []
        for i in idxs:
            snap, model, _ = states[i]
            try:
                o = fn(sysm, snap, model)
            except Exception as e:  # noqa  (an exception nobody anticipated: a verdict about the library, not a harness crash)
                import traceback
                o = Out()
                o.viol(rep.prop, "unexpected_exception", f"evaluating a state raised {type(e).__name__}: {e!r:.120}",
                       trace=traceback.format_exc()[-600:])
            outs.append((i, o.evals, o.nontrivial, o.viols, dict(o.stats), o.samples[:1]))
        return outs

    import time
    t0 = time.time()
    evals = nontriv = 0
    stats = collections.Counter()
    nviol = 0
    desc = describe or (sysm.describe() if hasattr(sysm, "describe") else None)
    for outs in pmap(work, chunks):
        for i, e, nt, viols, st, samples in outs:
            evals += e
            nontriv += nt
            stats.update(st)
            for v in viols:
                v = dict(v)
                v["hist"] = states[i][2]
                rep.add_violation(v, desc)
                nviol += 1
            if samples and len(rep.samples) < 8 and (i % max(1, n // max_samples) == 0):
                rep.samples.append(dict(search=name, state_history=jsonable(states[i][2]), case=jsonable(samples[0])))
    rep.evaluations += evals
    rep.nontrivial += nontriv
    rep.add_part(name=name, states=n, evaluations=evals, distinct_nontrivial=nontriv, violations=stats.get("violations", 0),
                 stats={k: stats[k] for k in sorted(stats)}, wall_s=round(time.time() - t0, 2))
    return evals, nontriv, stats


def rebuild_hex_state(doc):
    """replay a recorded history through the real API -> (sysm, snap, model)"""
    kw = dict(doc["system"]["kwargs"])
    for k in ("values", "props", "forms", "exits"):
        kw[k] = tuple(kw[k])
    kw["extra_batches"] = unjson(kw.get("extra_batches") or [])
    sysm = HexSys(**kw)
    hist = [unjson(e) for e in doc["history"]]
    snap, model = sysm.initial()[hist[0][1]]
    for ev in hist[1:]:
        st = sysm.step(snap, model, ev)
        if st.snap is None:
            raise HarnessError("history does not replay")
        snap, model = st.snap, st.model
    return sysm, snap, model


def rebuild_state(doc, factory):
    """generic: factory(kwargs) -> system; replay the recorded history through system.step"""
    sysm = factory(dict(doc["system"]["kwargs"]))
    hist = [unjson(e) for e in doc["history"]]
    snap, model = sysm.initial()[hist[0][1]]
    for ev in hist[1:]:
        st = sysm.step(snap, model, ev)
        if st.snap is None:
            raise HarnessError("history does not replay")
        snap, model = st.snap, st.model
    return sysm, snap, model


def replay_per_state(doc, fn, factory=None):
    """rebuild the state through the real API and evaluate fn on it; fn is also evaluated on every state along the history
    first (in one process), so that a defect living in process-wide state -- a module-level memo filled while an earlier
    state was examined -- has the context it needs"""
    if doc.get("check") in ("op_raised", "unexpected_exception", "long_lived_object_diverges", "model_merge"):
        # reported while the state set was being built (by the system's own transition), not by the per-state function
        from .engine import replay_doc
        if factory is None:
            kw = dict(doc["system"]["kwargs"])
            for k in ("values", "props", "forms", "exits"):
                kw[k] = tuple(kw[k])
            kw["extra_batches"] = unjson(kw.get("extra_batches") or [])
            return replay_doc(lambda: HexSys(**kw), doc)
        return replay_doc(lambda: factory(dict(doc["system"]["kwargs"])), doc)
    outs = []
    for _ in range(2):
        found = set()
        hist = doc["history"]
        for cut in range(1, len(hist) + 1):
            d2 = dict(doc)
            d2["history"] = hist[:cut]
            sysm, snap, model = rebuild_hex_state(d2) if factory is None else rebuild_state(d2, factory)
            if cut == len(hist):
                # ... and on the states one transition away (the same trie after one more update), then on the state itself
                for ev in sysm.events(snap, model):
                    st = sysm.step(snap, model, ev)
                    if st is not None and st.snap is not None:
                        found |= {v["check"] for v in fn(sysm, st.snap, st.model).viols}
            o = fn(sysm, snap, model)
            found |= {v["check"] for v in o.viols}
        outs.append(sorted(found))
    if outs[0] != outs[1]:
        raise HarnessError("replay is not deterministic")
    print("replayed state (and the states along its history); failing checks:", outs[0])
    return doc["check"] in outs[0]
