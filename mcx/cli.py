"""./check CLI."""
import argparse
import importlib
import json
import os
import sys
import traceback


def main():
    ap = argparse.ArgumentParser()
    ap.add_argument("prop", nargs="?")
    ap.add_argument("--tier", default=os.environ.get("VERIF_TIER") or "quick", choices=["quick", "thorough"])
    ap.add_argument("--replay")
    ap.add_argument("--selftest", action="store_true")
    a = ap.parse_args()
    import trie

    # checks always run the library in /repo's working tree; MCX_REPO names another checkout (with PYTHONPATH pointing
    # at it) for the mutant campaign only
    repo = os.environ.get("MCX_REPO") or "/repo"
    if not trie.__file__.startswith(repo.rstrip("/") + "/"):
        print(f"harness error: trie is imported from {trie.__file__}, not from {repo}", file=sys.stderr)
        return 2
    if a.selftest:
        from . import selftest

        return selftest.main()
    seed = int(os.environ.get("VERIF_SEED", "0") or 0)
    mod = importlib.import_module(f"mcx.checks.{a.prop.lower()}")
    try:
        if a.replay:
            doc = json.load(open(a.replay))
            ok = mod.replay(doc)
            if ok:
                print(f"VIOLATION property={a.prop} replay={a.replay}")
                return 1
            print(f"replay {a.replay}: violation NOT reproduced on the current tree")
            return 0
        rep = mod.run(a.tier, seed)
        return rep.finish()
    except Exception:  # harness error, never a verdict
        traceback.print_exc()
        print("HARNESS ERROR (exit 2): not a property verdict", file=sys.stderr)
        return 2


if __name__ == "__main__":
    sys.exit(main())
