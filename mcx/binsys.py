"""BinaryTrie under exploration (DESIGN §5 C12).  Model: prefix-free dict with refusal rules."""
import collections

from trie import BinaryTrie
from trie.exceptions import NodeOverrideError

from .dbs import LogDict
from .engine import Step, digest, jsonable
from .hexsys import V
from .ref import bintrie as bt

BIN_UNIVERSES = {
    "B8": ["00", "01", "80", "0000", "0001", "0080", "0180", "ff"],
    "B6": ["00", "01", "80", "0000", "0080", "ff"],
    "B4": ["00", "0000", "0080", "ff"],
    "B10": ["00", "01", "80", "0000", "0001", "0080", "0180", "ff", "8000", "0101"],
    "B4L": ["12345678", "12345679", "123456ff", "92345678", "1234"],
    # keys sharing more than 64 bits of prefix, one of them a prefix of the others, one diverging at the first bit
    "BLK": ["11" * 9 + "00", "11" * 9 + "01", "11" * 8 + "80", "11" * 8, "22"],
    # a comb: the path of 00 has a node at every bit
    "BC": ["00", "80", "40", "20", "10", "08", "04", "02", "01"],
    # keys longer than 32 bytes (kv nodes with a key path of more than 256 bits)
    "BXL": ["33" * 33, "33" * 32 + "34", "44" * 40],
    # a right comb below the one-byte prefix 11: from the branch where 11 ends, the all-right path reaches a leaf through branches only
    "BRC": ["11ff", "11fe", "11fc", "11f8", "11f0", "11e0", "11c0", "1180", "1100"],
}
BIN_PROBES = ["000000", "40", "0100", "ffff", "02", "fe", "008000", "11"]
BIN_VALUES = {"a": b"a", "bb": b"bb", "c33": b"c" * 33,
              # values that look like the trie's own encodings: a branch node, a kv node, the blank hash
              "br65": b"\x01" + b"B" * 64, "kv34": b"\x00\x10" + b"K" * 32, "v02": b"\x02\x02zz",
              "blank": bytes.fromhex("c5d2460186f7233c927e7db2dcc703c0e500b653ca82273b7bfad8045d85a470")}


def snapshot(t):
    db = t.db.plain() if isinstance(t.db, LogDict) else dict(t.db)
    return (t.root_hash, db)


def restore(snap, logdict=True):
    root, db = snap
    root = bytes(bytearray(root))  # an equal, never identical root object
    return BinaryTrie(LogDict(db) if logdict else dict(db), root)


def canon(snap):
    root, db = snap
    clo, missing = bt.closure(db, root)
    return digest((root, sorted(clo.items()), sorted(missing)))


class BinSys:
    def __init__(self, *, universe="B8", values=("a", "bb"), seed=0, props=("C12",), forms=("m",), chain=0):
        self.kw = dict(universe=universe, values=list(values), seed=seed, props=sorted(props), forms=list(forms), chain=chain)
        self.chain = chain
        self.many_events = bool(chain)
        # seed: an order-preserving relabelling is not meaningful for bit paths (only 0/1); the seed picks the value filler bytes
        self.keys = [bytes.fromhex(h) for h in BIN_UNIVERSES[universe]]
        self.probes = self.keys + [bytes.fromhex(h) for h in BIN_PROBES if bytes.fromhex(h) not in self.keys]
        fill = 0 if seed == 0 else (seed * 7919) % 90
        self.vals = [BIN_VALUES[v] if v in ("br65", "kv34", "blank", "v02") else bytes((c + fill) % 256 or 1 for c in BIN_VALUES[v]) for v in values]
        self.props = set(props)
        self.forms = tuple(forms)
        self.stats = collections.Counter()
        self.ops = []
        for k in self.keys:
            for v in self.vals:
                self.ops.append(("set", k, v))
        for k in self.probes:
            self.ops.append(("clr", k))
            self.ops.append(("del", k))
            self.ops.append(("dsub", k))

    def describe(self):
        return dict(system="BinSys", kwargs=self.kw)

    def initial(self):
        return [((bt.BLANK, {}), {})]

    canon = staticmethod(canon)

    def events(self, snap, model):
        if self.chain:
            import itertools
            ops = self.ops if self.chain <= 2 else [op for op in self.ops if op[1] in self.keys]
            return [("chain",) + seq for seq in itertools.product(ops, repeat=self.chain)]
        return [("op", op, f) for op in self.ops for f in self.forms]

    @staticmethod
    def model_step(m, op):
        """-> (new model, must_raise, may_raise)"""
        kind, k = op[0], op[1]
        m2 = dict(m)
        if kind == "set":
            if bt.conflicts(m, k):
                return m2, True, True
            m2[k] = op[2]
            return m2, False, False
        if kind in ("clr", "del"):
            if k in m:
                del m2[k]
                return m2, False, False
            return m2, False, bt.conflicts(m, k)
        if kind == "dsub":
            hit = [s for s in m if s.startswith(k)]
            for s in hit:
                del m2[s]
            return m2, False, (not hit) and bt.conflicts(m, k)
        raise ValueError(op)

    @staticmethod
    def apply(t, op, form="m"):
        kind, k = op[0], op[1]
        if kind == "set":
            if form == "m":
                t.set(k, op[2])
            else:
                t[k] = op[2]
        elif kind == "clr":
            if form == "m":
                t.set(k, b"")
            else:
                t[k] = b""
        elif kind == "del":
            if form == "m":
                t.delete(k)
            else:
                del t[k]
        elif kind == "dsub":
            t.delete_subtrie(k)

    def step(self, snap, model, ev):
        if ev[0] == "chain":
            # several operations on ONE live trie object, no snapshot/restore in between
            t = restore(snap)
            cur_snap, cur_model, viols = snap, model, []
            for op in ev[1:]:
                t.db.reset_log()
                st = self._do(t, cur_snap, cur_model, ("op", op, "m"))
                viols += st.viols
                if st.snap is None or st.viols:
                    return Step(None, st.model, viols)
                cur_snap, cur_model = st.snap, st.model
            return Step(cur_snap, cur_model, viols)
        return self._do(restore(snap), snap, model, ev)

    def _do(self, t, snap, model, ev):
        _, op, form = ev
        viols = []
        self.stats["ev:" + op[0]] += 1
        m2, must, may = self.model_step(model, op)
        raised = False
        if "C12" in self.props:
            v = self._probe_same(t, model, "before_event")
            if v:
                return Step(None, model, [v])
        try:
            self.apply(t, op, form)
        except NodeOverrideError:
            raised = True
        except Exception as e:  # noqa
            viols.append(V("C12", "op_raised", f"{op[0]} raised {type(e).__name__}", event=op[0], exc=repr(e)[:160], key=op[1], model=model))
            return Step(None, model, viols)
        post = snapshot(t)
        if "C12" not in self.props:  # pure state generation for the per-state enumerations (C13, C18)
            return Step(post, dict(model) if raised else m2, viols)
        if raised:
            self.stats["refused:" + op[0]] += 1
            if not may:
                viols.append(V("C12", "wrongly_refused", f"{op[0]} was refused with NodeOverrideError without a prefix conflict", event=op[0],
                               key=op[1], model=model))
            if post[0] != snap[0]:
                viols.append(V("C12", "refusal_changed_root", "a refused call changed the root", event=op[0], key=op[1], model=model))
            m2 = dict(model)
        elif must:
            viols.append(V("C12", "override_accepted", "a non-empty value was stored under a key that is a proper prefix or extension of a stored key",
                           event=op[0], key=op[1], model=model))
            return Step(None, model, viols)
        v = self._probe_same(t, m2, "after_event_same_object")
        if v:
            viols.append(v)
        # the root that was current before the event is still completely readable from the same database
        old = BinaryTrie(dict(post[1]), snap[0])
        for p in self.probes:
            try:
                if old.get(p) != model.get(p):
                    viols.append(V("C12", "earlier_root_changed", "the previous root no longer reads the contents it had", event=op[0], key=p))
                    break
            except Exception as e:  # noqa
                viols.append(V("C12", "earlier_root_unreadable", f"reading the previous root raised {type(e).__name__}", event=op[0], key=p))
                break
        want = bt.root(m2)
        if post[0] != want:
            viols.append(V("C12", "root_not_canonical", "root hash is not the hash of the canonical encoding of the contents", event=op[0], key=op[1],
                           got=post[0], want=want, model=m2))
        # append-only, content addressed => every earlier root stays readable
        if t.db.dels:
            viols.append(V("C12", "db_entry_deleted", "the binary trie deleted database entries", event=op[0]))
        for k, v in snap[1].items():
            if post[1].get(k) != v:
                viols.append(V("C12", "db_entry_changed", "an existing database entry was removed or changed", event=op[0]))
                break
        for k in set(post[1]) - set(snap[1]):
            if bt.keccak(post[1][k]) != k:
                viols.append(V("C12", "db_entry_not_content_addressed", "a new entry is not keyed by keccak(value)", event=op[0]))
                break
        if bt.closure(post[1], post[0])[1]:
            viols.append(V("C12", "new_root_incomplete", "a node of the new root is missing from the database", event=op[0]))
        pre_clo = bt.closure(snap[1], snap[0])[0]
        written = {k for k, _ in t.db.writes}
        if any(k not in pre_clo and k not in written for k in t.db.reads):
            viols.append(V("C12", "read_outside_closure", "an entry not reachable from the current root was read", event=op[0]))
        return Step(post, m2, viols)

    def _probe_same(self, t, m, where):
        for p in self.probes:
            try:
                got = t.get(p)
            except Exception as e:  # noqa
                return V("C12", "lookup_raised", f"get({p.hex()}) raised {type(e).__name__}", form="get", key=p, where=where, model=m)
            if got != m.get(p):
                return V("C12", "lookup_wrong", f"get({p.hex()}) returned {got!r}, map model says {m.get(p)!r}", form="get", key=p, where=where, model=m)
        return None

    def state_check(self, snap, model):
        viols = []
        root, db = snap
        self.stats["states_checked"] += 1
        if "C12" not in self.props:
            return viols
        t = restore(snap)
        if (root == bt.BLANK) != (not model):
            viols.append(V("C12", "blank_iff_empty", "blank root hash does not coincide with empty contents", model=model))
        if root != bt.root(model):
            viols.append(V("C12", "root_not_canonical", "root hash is not the hash of the canonical encoding of the contents", model=model))
        for p in self.probes:
            want = model.get(p)
            for form in ("get", "getitem", "exists", "contains"):
                try:
                    if form == "get":
                        got, exp = t.get(p), want
                    elif form == "getitem":
                        got, exp = t[p], want
                    elif form == "exists":
                        got, exp = t.exists(p), want is not None
                    else:
                        got, exp = (p in t), want is not None
                except Exception as e:  # noqa
                    viols.append(V("C12", "lookup_raised", f"{form}({p.hex()}) raised {type(e).__name__}", form=form, key=p, model=model))
                    break
                if got != exp:
                    viols.append(V("C12", "lookup_wrong", f"{form}({p.hex()}) returned {got!r}, map model says {exp!r}", form=form, key=p, model=model))
                    break
            if len(viols) > 3:
                break
        if t.db.writes or t.db.dels:
            viols.append(V("C12", "lookup_mutated_db", "a lookup wrote to the database"))
        for h in bt.nodes(model):
            kind = bt.parse(bt.nodes(model)[h])[0]
            self.stats["node:" + kind] += 1
        return viols

    def live_new(self, i):
        return [BinaryTrie(LogDict()), {}]

    def live_apply(self, live, ev):
        t, m = live
        if ev[0] == "chain":
            for op in ev[1:]:
                self.live_apply(live, ("op", op, "m"))
            return
        try:
            self.apply(t, ev[1], ev[2])
        except NodeOverrideError:
            return
        m2, _, _ = self.model_step(m, ev[1])
        m.clear()
        m.update(m2)

    def live_check(self, live):
        if "C12" in self.props:
            v = self._probe_same(live[0], live[1], "long_lived_object")
            return [v] if v else []
        return []

    def live_canon(self, live):
        return canon(snapshot(live[0]))
