"""HexaryTrieFog under exploration (DESIGN §5 C11).  Model: a Python set of nibble tuples."""
import collections
import itertools

from eth_utils import ValidationError as EthUtilsValidationError
from trie.exceptions import FullDirectionalVisibility, PerfectVisibility
from trie.exceptions import ValidationError as TrieValidationError
from trie.fog import HexaryTrieFog

from . import alphabet
from .engine import Step, jsonable
from .hexsys import V

# fog.py rejects with eth_utils.ValidationError; the property only says "rejected", so either class counts
ValidationError = (EthUtilsValidationError, TrieValidationError)


def members(fog):
    """read the unexplored set through the public API only (serialize is checked separately): iterate nearest_right"""
    return tuple(tuple(int(x) for x in p) for p in fog._unexplored_prefixes)


def build(prefixes):
    """any antichain is one explore() away from the fresh fog"""
    f = HexaryTrieFog()
    prefixes = list(prefixes)
    if prefixes == [()]:
        return f
    return f.explore((), prefixes)


def is_prefix(a, b):
    return len(a) <= len(b) and tuple(b[: len(a)]) == tuple(a)


class FogSys:
    def __init__(self, *, nibbles=(0, 7, 15), depth=2, seed=0, mark_sizes=2, query_nibbles=(0, 3, 7, 8, 15)):
        self.kw = dict(nibbles=list(nibbles), depth=depth, seed=seed, mark_sizes=mark_sizes, query_nibbles=list(query_nibbles))
        lab = alphabet.Labels(seed)
        self.A = tuple(sorted({lab.map[n] for n in nibbles}))
        self.depth = depth
        self.mark_sizes = mark_sizes
        qn = sorted({lab.map[n] for n in query_nibbles} | set(self.A))
        self.queries = [q for n in range(depth + 2) for q in itertools.product(qn, repeat=n)]
        self.stats = collections.Counter()

    def describe(self):
        return dict(system="FogSys", kwargs=self.kw)

    def initial(self):
        return [(((),), None)]

    @staticmethod
    def canon(snap):
        return snap

    # ------------------------------------------------------------------ menus
    def menus(self, r):
        """-> [(sub_segments list, valid?)] for a member with r nibbles of depth budget left"""
        A = self.A
        out = [((), True), (((),), True)]
        if r >= 1:
            for n in range(1, len(A) + 1):
                for sub in itertools.combinations(A, n):
                    out.append((tuple((a,) for a in sub), True))
            out.append((((A[0],), (A[0],)), False))            # duplicate
            out.append(((((), (A[-1],))), False))               # () together with others
            out.append((((A[-1],), (A[0],)), True))             # unsorted input order
        if r >= 2:
            for a in A:
                for b in A:
                    out.append((((a, b),), True))
            for a, b in itertools.permutations(A, 2):
                out.append((((a,), (b, A[0])), True))           # mixed lengths
            for a in A[:2]:
                out.append((((a, A[0]), (a, A[-1])), True))     # two extensions sharing a nibble
            out.append((((A[0],), (A[0], A[-1])), False))       # nested
            out.append((((A[-1], A[0]), (A[-1],)), False))      # nested, longer first
            out.append((((A[0], A[0]), (A[0], A[0])), False))   # duplicate long
            out.append((((A[0],), (A[-1], A[0]), (A[-1], A[0])), False))   # duplicate among mixed lengths
            out.append((((A[-1], A[0]), (A[0],), (A[0],)), False))         # duplicate short one among mixed lengths
        if r >= 3:
            a, b = A[0], A[-1]
            out.append((((a,), (b, a), (b, b, a)), True))           # three distinct lengths, no nesting
            out.append((((a, a, b),), True))
            out.append((((a,), (b, a), (b, a, b)), False))          # nested pair among the two longer ones
            out.append((((b, a, b), (b, a), (a,)), False))          # same, longest first
            out.append((((a,), (b, b), (a, b, b)), False))          # nested under the shortest
        return out

    def events(self, snap, model):
        evs = []
        for p in snap:
            for menu, valid in self.menus(self.depth - len(p)):
                evs.append(("explore", p, menu, valid))
        for n in range(0, self.mark_sizes + 1):
            for sub in itertools.combinations(snap, n):
                evs.append(("mark", sub, True))
        if snap:
            evs.append(("mark", (snap[0], snap[0]), False))                       # duplicate in the list
        unknown = self._unknown(snap)
        evs.append(("mark", (unknown,), False))
        evs.append(("explore", unknown, ((self.A[0],),), False))
        if snap and snap != ((),):
            evs.append(("mark", (snap[0], unknown), False))                        # valid then unknown: no partial effect
        return evs

    def _unknown(self, snap):
        for n in range(self.depth + 2):
            for q in itertools.product(self.A, repeat=n):
                if q not in snap:
                    return q
        raise AssertionError

    # ------------------------------------------------------------------ transition
    def step(self, snap, model, ev):
        f = build(snap)
        viols = []
        before = members(f)
        if before != snap:
            viols.append(V("C11", "restore_mismatch", "explore((), prefixes) from a fresh fog does not give that set", got=before, want=snap))
            return Step(None, None, viols)
        kind = ev[0]
        self.stats["ev:" + kind + (":valid" if ev[-1] else ":invalid")] += 1
        if kind == "explore":
            _, p, menu, valid = ev
            want = tuple(sorted((set(snap) - {p}) | {tuple(p) + tuple(s) for s in menu})) if valid else None
            call = lambda: f.explore(p, [tuple(s) for s in menu])  # noqa
        else:
            _, sub, valid = ev
            want = tuple(sorted(set(snap) - set(sub))) if valid else None
            call = lambda: f.mark_all_complete([tuple(s) for s in sub])  # noqa
        try:
            g = call()
        except ValidationError:
            if valid:
                viols.append(V("C11", "valid_call_rejected", f"{kind} with a valid argument was rejected", event=kind, arg=ev[1:3]))
            g = None
        except Exception as e:  # noqa
            viols.append(V("C11", "wrong_exception", f"{kind} raised {type(e).__name__}", event=kind, arg=ev[1:3], exc=repr(e)[:120]))
            g = None
        else:
            if not valid:
                viols.append(V("C11", "invalid_call_accepted", f"{kind} accepted an unknown prefix or duplicate / nested sub-segments", event=kind,
                               arg=ev[1:3], result=members(g)))
        if members(f) != before:
            viols.append(V("C11", "receiver_modified", f"{kind} modified the receiver", event=kind, arg=ev[1:3], before=before, after=members(f)))
        if g is None or not valid:
            return Step(snap, None, viols)
        got = members(g)
        if got != want:
            viols.append(V("C11", "wrong_set", f"{kind} did not leave the set obtained by replacing the prefix with its continuations", event=kind,
                           arg=ev[1:3], got=got, want=want))
        return Step(got, None, viols)

    # ------------------------------------------------------------------ state invariants
    def state_check(self, snap, model):
        viols = []
        f = build(snap)
        U = list(snap)
        self.stats["states_checked"] += 1
        for a, b in itertools.permutations(U, 2):
            if is_prefix(a, b):
                viols.append(V("C11", "not_antichain", "an unexplored prefix starts with another", a=a, b=b))
                break
        if f.is_complete != (len(U) == 0):
            viols.append(V("C11", "is_complete_wrong", "is_complete does not coincide with an empty unexplored set", members=U))
        try:
            g = HexaryTrieFog.deserialize(f.serialize())
            if members(g) != snap or not (g == f) or (g != f):
                viols.append(V("C11", "serialize_roundtrip", "deserialize(serialize(fog)) != fog", got=members(g), want=snap))
        except Exception as e:  # noqa
            viols.append(V("C11", "serialize_roundtrip", f"serialize / deserialize raised {type(e).__name__}", exc=repr(e)[:120]))
        if f == build(tuple(U[1:]) if U else ((),)):
            viols.append(V("C11", "eq_wrong", "== holds between fogs with different unexplored sets"))
        # nearest_* on the whole query grid
        for q in self.queries:
            self.stats["queries"] += 2
            cont = [m for m in U if is_prefix(m, q)]
            right = [m for m in U if m > q]
            left = [m for m in U if m <= q]
            for name in ("nearest_unknown", "nearest_right"):
                try:
                    r = tuple(int(x) for x in getattr(f, name)(q))
                except PerfectVisibility:
                    if U:
                        viols.append(V("C11", "perfect_visibility_wrong", f"{name} raised PerfectVisibility although prefixes are unexplored", form=name, query=q))
                    continue
                except FullDirectionalVisibility:
                    if name == "nearest_unknown" or not U or cont or right:
                        viols.append(V("C11", "directional_visibility_wrong", f"{name} raised FullDirectionalVisibility although something lies to the right "
                                       "(or contains the key)", form=name, query=q, members=U))
                    continue
                except Exception as e:  # noqa
                    viols.append(V("C11", "nearest_raised", f"{name} raised {type(e).__name__}", form=name, query=q, exc=repr(e)[:120]))
                    continue
                if not U:
                    viols.append(V("C11", "perfect_visibility_wrong", f"{name} returned a prefix from an empty fog", form=name, query=q))
                elif r not in U:
                    viols.append(V("C11", "nearest_not_member", f"{name} returned something that is not an unexplored prefix", form=name, query=q, got=r))
                elif cont:
                    if r != cont[0]:
                        viols.append(V("C11", "nearest_ignores_containing", f"{name} did not return the unexplored prefix containing the key", form=name,
                                       query=q, got=r, want=cont[0], members=U))
                elif name == "nearest_right":
                    if not right or r != min(right):
                        viols.append(V("C11", "nearest_right_wrong", "nearest_right did not return the closest prefix to the right", form=name, query=q,
                                       got=r, members=U))
                else:
                    adj = ([max(left)] if left else []) + ([min(right)] if right else [])
                    if r not in adj:
                        viols.append(V("C11", "nearest_unknown_not_adjacent", "nearest_unknown returned a prefix that is not adjacent to the key", form=name,
                                       query=q, got=r, members=U))
            if len(viols) > 3:
                break
        if U:
            try:
                r = tuple(int(x) for x in f.nearest_unknown())
                if r != U[0]:
                    viols.append(V("C11", "nearest_unknown_default", "nearest_unknown() without a key is not the left-most prefix", got=r))
            except Exception as e:  # noqa
                viols.append(V("C11", "nearest_raised", f"nearest_unknown() raised {type(e).__name__}"))
        # commutation of independent explorations
        small = [(), ((self.A[0],),), ((self.A[0],), (self.A[-1],))]
        for a, b in itertools.combinations(U, 2):
            for Sa in small:
                for Sb in small:
                    if (Sa and len(a) >= self.depth + 1) or (Sb and len(b) >= self.depth + 1):
                        continue
                    self.stats["commutations"] += 1
                    x = f.explore(a, Sa).explore(b, Sb)
                    y = f.explore(b, Sb).explore(a, Sa)
                    if members(x) != members(y) or not (x == y):
                        viols.append(V("C11", "not_commutative", "two independent explorations do not commute", a=a, b=b, Sa=Sa, Sb=Sb))
                        return viols
        if members(f) != snap:
            viols.append(V("C11", "receiver_modified", "queries modified the fog"))
        return viols

    # ------------------------------------------------------------------ live replay
    def live_new(self, i):
        return [HexaryTrieFog()]

    def live_apply(self, live, ev):
        f = live[0]
        try:
            if ev[0] == "explore":
                g = f.explore(ev[1], [tuple(s) for s in ev[2]])
            else:
                g = f.mark_all_complete([tuple(s) for s in ev[1]])
        except ValidationError:
            return
        if ev[-1]:
            live[0] = g

    def live_canon(self, live):
        return members(live[0])
