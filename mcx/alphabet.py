"""Key / value alphabets (DESIGN §4) and the order-preserving seed relabelling (§2.5)."""
import os
import random

HEX_UNIVERSES = {
    "H3": ["", "1234", "1235"],
    "H4": ["", "1234", "1235", "13"],
    "H5": ["", "1234", "1235", "123456", "13"],
    "H6": ["", "12", "1234", "1235", "123456", "13"],
    "H6b": ["", "1234", "1235", "123456", "13", "124567"],
    "H7": ["", "12", "1234", "1235", "123456", "13", "1245"],
    "H9": ["", "12", "1234", "1235", "123456", "13", "1245", "20", "123457"],
    "HS": ["1001", "1002", "2001", "2002", "10", ""],
    "HW": ["", "00", "10", "70", "80", "e0", "f0"],
    "HS4": ["1001", "1002", "2001", "2002"],
    # keys of very different lengths in one trie, two of them longer than 32 bytes
    "HV": ["", "11" * 20, "11" * 33 + "12", "11" * 33 + "13"],
    # two 28-byte keys differing in the first nibble: leaves with a 55-nibble path (node size 31/32 with a one-byte value)
    "HT": ["", "1" * 56, "2" + "1" * 55],
    # 130-byte keys: leaf paths longer than 256 nibbles, extensions longer than 128 bytes
    "HXXL": ["", "11" * 129 + "12", "11" * 129 + "13", "21" * 130],
    # a key that is a proper prefix of two longer keys (branch with a value above two children)
    "HP3": ["01", "0123", "0145"],
    # three keys with the same tail under three branch slots (with one long value: a hashed leaf referenced three times)
    "H3S": ["1001", "2001", "3001", "40"],
    # deleting 0001 collapses a branch into a leaf that is byte-identical to the leaf of key 12 (same remaining nibble, same value)
    "HC": ["0001", "0002", "12"],
    "H2": ["", "1234"],
    "HW4": ["", "00", "70", "f0"],
    "H4b": ["12", "1234", "1235", "1245"],
    "HL": [
        "11" * 30 + "1234",
        "11" * 30 + "1235",
        "11" * 30 + "13",
        "11" * 30 + "12",
    ],
}
HEX_PROBES = ["10", "1230", "123450", "12345678", "1244ff", "20", "01", "ff", "12", "1245", "1"]

# value name -> length; the content is the seed's filler byte repeated
VALUE_LEN = {"S": 1, "T26": 26, "T27": 27, "T28": 28, "T29": 29, "T30": 30, "L": 33, "X": 60, "M": 2, "V32": 32, "V55": 55, "V56": 56}
# literal values whose bytes matter to RLP (single byte below / at 0x80) -- not relabelled by the seed
VALUE_LITERAL = {"Z00": b"\x00", "B7f": b"\x7f", "B80": b"\x80", "Bff": b"\xff",
                 # values that coincide with the library's own sentinels (hash of the blank hexary root / of the empty string)
                 "VBNH": bytes.fromhex("56e81f171bcc55a6ff8345e692c0f86e5b48e01b996cadc001622fb5e363b421"),
                 "VBH": bytes.fromhex("c5d2460186f7233c927e7db2dcc703c0e500b653ca82273b7bfad8045d85a470")}


class Labels:
    """Order-preserving relabelling of nibble values + filler byte, chosen by VERIF_SEED.

    Seed 0 is the identity.  Structure (prefix relations, divergence points, key and
    value lengths, relative order of nibbles) is unchanged for every seed.
    """

    def __init__(self, seed=None):
        if seed is None:
            seed = int(os.environ.get("VERIF_SEED", "0") or 0)
        self.seed = seed
        if seed == 0:
            self.map = list(range(16))
            self.filler = 0x61
        else:
            rnd = random.Random(seed)
            # nibbles used by the universes and probes: 0..8, e, f.  0 and f stay put
            # (extreme slots), the nine inner ones are mapped strictly monotonically
            # onto a random 9-subset of 1..14.
            inner = [1, 2, 3, 4, 5, 6, 7, 8, 14]
            targets = sorted(rnd.sample(range(1, 15), len(inner)))
            self.map = list(range(16))
            for u, t in zip(inner, targets):
                self.map[u] = t
            self.filler = rnd.randrange(0x01, 0x80)

    def key(self, hexstr):
        ns = [self.map[int(c, 16)] for c in hexstr]
        return bytes(ns[i] * 16 + ns[i + 1] for i in range(0, len(ns), 2))

    def nibbles(self, hexstr):
        return tuple(self.map[int(c, 16)] for c in hexstr)

    def value(self, name):
        if name == "":
            return b""
        if name in VALUE_LITERAL:
            return VALUE_LITERAL[name]
        return bytes([self.filler]) * VALUE_LEN[name]

    def keys(self, universe):
        return [self.key(h) for h in HEX_UNIVERSES[universe]]

    def probes(self, universe):
        out = []
        for h in HEX_UNIVERSES[universe] + [p for p in HEX_PROBES if len(p) % 2 == 0]:
            k = self.key(h)
            if k not in out:
                out.append(k)
        return out


def monotone_ok(labels, universe_names):
    """check the relabelling is strictly monotone on the nibbles actually used"""
    used = set()
    for u in universe_names:
        for h in HEX_UNIVERSES[u]:
            used |= {int(c, 16) for c in h}
    for p in HEX_PROBES:
        used |= {int(c, 16) for c in p}
    used = sorted(used)
    img = [labels.map[u] for u in used]
    return all(a < b for a, b in zip(img, img[1:]))
