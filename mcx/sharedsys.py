"""Two HexaryTrie handles on ONE shared non-pruning database (DESIGN §5 C04-B).

Exact-state, depth-bounded.  State = (full db, root of handle 1, root of handle 2, every
root that was ever current with the contents it had then).  After every event every
historical root is re-read completely, through a freshly opened trie and through
at_root, against the contents recorded when that root was current.
"""
import collections
import itertools

from trie import HexaryTrie

from . import alphabet
from .dbs import LogDict
from .engine import Step, digest, jsonable
from .hexsys import V, apply_op
from .ref import mpt


class SnapshotNotIndependent(Exception):
    pass


class SharedDbSys:
    def __init__(self, *, universe="H4", values=("S", "L"), seed=0, batch2=8, depth=3):
        self.kw = dict(universe=universe, values=list(values), seed=seed, batch2=batch2, depth=depth)
        self.labels = alphabet.Labels(seed)
        self.keys = self.labels.keys(universe)
        self.vals = [self.labels.value(v) for v in values]
        self.probes = self.labels.probes(universe)
        self.stats = collections.Counter()
        self.ops = []
        for k in self.keys:
            for v in self.vals:
                self.ops.append(("set", k, v))
            self.ops.append(("del", k))
        two = list(itertools.product(self.ops, repeat=2))
        # a fixed spread of two-operation batches (overwrite, set+delete of the same / another key, ...)
        step = max(1, len(two) // max(1, batch2))
        self.batches = [(o,) for o in self.ops] + [two[i] for i in range(0, len(two), step)][:batch2]

    def describe(self):
        return dict(system="SharedDbSys", kwargs=self.kw)

    def initial(self):
        return [(({}, mpt.BLANK_ROOT, mpt.BLANK_ROOT, ((mpt.BLANK_ROOT, frozenset()),)), None)]

    @staticmethod
    def canon(snap):
        db, r1, r2, roots = snap
        return digest((sorted(db.items()), r1, r2, sorted((r, sorted(m)) for r, m in roots)))

    def events(self, snap, model):
        evs = []
        for h in (1, 2):
            for op in self.ops:
                evs.append(("op", h, op))
            for seq in self.batches:
                evs.append(("batch", h, seq))
        for i in range(len(snap[3])):
            evs.append(("reopen", i))
            evs.append(("reopen_at_root", i))
        # a snapshot that is alive WHILE the parent (or the snapshot itself) is modified: at the parent's current root and at
        # the most recent other root
        roots = [r for r, _ in snap[3]]
        idxs = sorted({roots.index(snap[1]), len(roots) - 1})
        for i in idxs:
            for who in ("parent", "snapshot"):
                for op in self.ops:
                    evs.append(("snap_live", i, who, op))
        return evs

    def _open(self, snap):
        db, r1, r2, roots = snap
        d = LogDict(db)
        return d, HexaryTrie(d, bytes(bytearray(r1))), HexaryTrie(d, bytes(bytearray(r2)))

    def step(self, snap, model, ev):
        db0, r1, r2, roots = snap
        d, t1, t2 = self._open(snap)
        rootmap = {r: dict(m) for r, m in roots}
        viols = []
        self.stats["ev:" + ev[0]] += 1
        try:
            t2 = self._apply(d, t1, t2, rootmap, roots, ev)
        except SnapshotNotIndependent as e:
            viols.append(V("C04", "snapshot_not_independent", f"an at_root snapshot is not an independent view: {e}", event=ev[0]))
            return Step(None, None, viols)
        except Exception as e:  # noqa
            viols.append(V("C04", "shared_op_raised", f"{ev[0]} raised {type(e).__name__} on a complete shared database", exc=repr(e)[:200], event=ev[0]))
            return Step(None, None, viols)
        new_roots = list(roots)
        known = {r for r, _ in roots}
        for t, h in ((t1, 1), (t2, 2)):
            if t.root_hash not in known:
                known.add(t.root_hash)
                new_roots.append((t.root_hash, frozenset(rootmap[t.root_hash].items())))
        post_db = d.plain()
        # append-only, content addressed
        if d.dels:
            viols.append(V("C04", "nonpruning_deleted", "a non-pruning trie deleted database entries", event=ev[0]))
        for k, v in db0.items():
            if post_db.get(k) != v:
                viols.append(V("C04", "entry_removed_or_changed", "an existing entry was removed or changed", key=k, event=ev[0]))
                break
        for k in set(post_db) - set(db0):
            if mpt.keccak(post_db[k]) != k:
                viols.append(V("C04", "entry_not_content_addressed", "new entry key is not keccak(value)", key=k, event=ev[0]))
                break
        post = (post_db, t1.root_hash, t2.root_hash, tuple(new_roots))
        viols += self._reread(post, t1)
        return Step(post, None, viols)

    def _apply(self, d, t1, t2, rootmap, roots, ev):
        kind = ev[0]
        if kind == "op":
            t = t1 if ev[1] == 1 else t2
            m = dict(rootmap[t.root_hash])
            apply_op(t, m, ev[2])
            self._note(rootmap, t.root_hash, m)
        elif kind == "batch":
            t = t1 if ev[1] == 1 else t2
            m = dict(rootmap[t.root_hash])
            with t.squash_changes() as b:
                for op in ev[2]:
                    apply_op(b, m, op)
            self._note(rootmap, t.root_hash, m)
        elif kind == "snap_live":
            _, i, who, op = ev
            r_i = roots[i][0]
            m_i = dict(roots[i][1])
            r1_before = t1.root_hash
            with t1.at_root(r_i) as s:
                if who == "parent":
                    m = dict(rootmap[t1.root_hash])
                    apply_op(t1, m, op)
                    self._note(rootmap, t1.root_hash, m)
                    if s.root_hash != r_i:
                        raise SnapshotNotIndependent("the snapshot's root moved when the parent was modified")
                    bad = self._probe(s, m_i, "live at_root snapshot after a parent update", r_i)
                    if bad:
                        raise SnapshotNotIndependent(bad["msg"])
                else:
                    m = dict(m_i)
                    apply_op(s, m, op)
                    self._note(rootmap, s.root_hash, m)
                    if t1.root_hash != r1_before:
                        raise SnapshotNotIndependent("the parent's root moved when the snapshot was modified")
                    bad = self._probe(t1, rootmap[r1_before], "parent after an update through its at_root snapshot", r1_before)
                    if bad:
                        raise SnapshotNotIndependent(bad["msg"])
                t2 = s
        elif kind == "reopen":
            t2 = HexaryTrie(d, roots[ev[1]][0])
        elif kind == "reopen_at_root":
            with t1.at_root(roots[ev[1]][0]) as s:
                t2 = s
        else:
            raise ValueError(ev)
        return t2

    def _note(self, rootmap, root, m):
        old = rootmap.get(root)
        if old is not None and old != m:
            raise AssertionError("same root reached with different contents")
        rootmap[root] = m

    def _reread(self, snap, t1=None):
        """every historical root is fully readable with the contents it had then"""
        viols = []
        db, r1, r2, roots = snap
        for r, m in roots:
            m = dict(m)
            clo, missing = mpt.closure(db, r)
            if missing:
                viols.append(V("C04", "old_root_incomplete", "a node of an earlier root is no longer in the database", root=r, field="closure"))
                continue
            if mpt.root(m) != r:
                viols.append(V("C04", "root_not_canonical", "a recorded root is not the canonical root of its contents", root=r))
            fresh = HexaryTrie(dict(db), r)
            views = [("fresh", fresh)]
            for name, view in views:
                v = self._probe(view, m, name, r)
                if v:
                    viols.append(v)
                    break
            base = HexaryTrie(dict(db), r1)
            try:
                with base.at_root(r) as s:
                    v = self._probe(s, m, "at_root", r)
                    if v:
                        viols.append(v)
            except Exception as e:  # noqa
                viols.append(V("C04", "at_root_raised", f"at_root raised {type(e).__name__}", root=r))
            self.stats["roots_reread"] += 1
        return viols

    def _probe(self, t, m, name, r):
        for p in self.probes:
            want = m.get(p, b"")
            try:
                got = t.get(p)
                ex = t.exists(p)
            except Exception as e:  # noqa
                return V("C04", "old_root_unreadable", f"reading {p.hex()} at an earlier root through {name} raised {type(e).__name__}",
                         root=r, key=p, form=name, exc=repr(e)[:160])
            if got != want or ex != (want != b""):
                return V("C04", "old_root_wrong_contents", f"an earlier root read through {name} no longer has the contents it had",
                         root=r, key=p, form=name, got=got, want=want)
        return None

    def state_check(self, snap, model):
        return []

    # live replay: long-lived real objects, no snapshots
    def live_new(self, init_index):
        d = LogDict()
        return dict(d=d, t1=HexaryTrie(d), t2=HexaryTrie(d), rootmap={mpt.BLANK_ROOT: {}}, roots=[(mpt.BLANK_ROOT, frozenset())])

    def live_apply(self, live, ev):
        live["t2"] = self._apply(live["d"], live["t1"], live["t2"], live["rootmap"], live["roots"], ev)
        known = {r for r, _ in live["roots"]}
        for t in (live["t1"], live["t2"]):
            if t.root_hash not in known:
                known.add(t.root_hash)
                live["roots"].append((t.root_hash, frozenset(live["rootmap"][t.root_hash].items())))

    def live_canon(self, live):
        return self.canon((live["d"].plain(), live["t1"].root_hash, live["t2"].root_hash, tuple(live["roots"])))
