"""HexaryTrie under exploration: snapshot / restore, events, transition + state invariants.

Serves C01 C02 C04(A,C) C05 C06.  The system is the real ``trie.HexaryTrie`` over a
LogDict; the model is a plain dict.
"""
import collections
import itertools
from collections import defaultdict

from trie import HexaryTrie
from trie.constants import BLANK_NODE_HASH
from trie.exceptions import ValidationError

from . import alphabet
from .dbs import InjectedKeyError, InjectedWriteFailure, LogDict
from trie.exceptions import MissingTrieNode
from .engine import Step, digest, jsonable
from .ref import mpt


class BatchAbort(Exception):
    pass


class CallerKeyError(KeyError):
    pass


class BatchCancel(BaseException):
    """leaves the block like KeyboardInterrupt / asyncio.CancelledError would: not an Exception subclass"""


def V(prop, check, msg, **detail):
    sig = dict(check=check)
    for k in ("field", "prune", "event", "form"):
        if k in detail:
            sig[k] = detail[k]
    return dict(prop=prop, check=check, sig=sig, msg=msg, detail=jsonable(detail))


def snapshot(t):
    db = t.db.plain() if isinstance(t.db, LogDict) else dict(t.db)
    rc = None
    if t.is_pruning:
        rc = {k: v for k, v in t.ref_count.items() if v != 0}  # the public view of the reference counts
    return (t.root_hash, db, rc)


class KeyBytes(bytes):
    """a bytes subclass (like hexbytes.HexBytes): a perfectly good key / root hash"""


def restore(snap, logdict=True):
    root, db, rc = snap
    root = bytes(bytearray(root))  # an equal but never identical object (roots come from headers, pickles, hex strings ...)
    d = LogDict(db) if logdict else dict(db)
    if rc is None:
        return HexaryTrie(d, root)
    c = defaultdict(int)
    c.update(rc)
    return HexaryTrie(d, root, prune=True, ref_count=c)


def canon(snap):
    root, db, rc = snap
    if rc is None:
        clo, missing = mpt.closure(db, root)
        return digest((root, sorted(clo.items()), sorted(missing)))
    return digest((root, sorted(db.items()), sorted(rc.items())))


def apply_op(t, m, op, form="m"):
    """apply one basic operation to a real trie and to the model"""
    kind = op[0]
    if kind == "set":
        _, k, v = op
        if form == "m":
            t.set(k, v)
        else:
            t[k] = v
        m[k] = v
    elif kind == "del":
        k = op[1]
        if form == "m":
            t.delete(k)
        else:
            del t[k]
        m.pop(k, None)
    elif kind == "clr":
        k = op[1]
        if form == "m":
            t.set(k, b"")
        else:
            t[k] = b""
        m.pop(k, None)
    else:
        raise ValueError(op)


class HexSys:
    def __init__(self, *, universe="H5", values=("S", "L"), prune=False, props=("C01",), batch_len=0,
                 forms=("m",), exits=("commit", "abort"), write_faults=False, batch_universe=None,
                 nested=False, seed=0, init_all=False, direct=True, extra_batches=(), pairs=False, chain=0):
        self.kw = dict(universe=universe, values=list(values), prune=prune, props=sorted(props), batch_len=batch_len,
                       forms=list(forms), exits=list(exits), write_faults=write_faults,
                       batch_universe=batch_universe, nested=nested, seed=seed, direct=direct,
                       extra_batches=jsonable(extra_batches), pairs=pairs, chain=chain)
        self.pairs = pairs
        self.chain = chain
        self.many_events = bool(pairs or chain)
        if pairs and (write_faults or "wfail" in exits):
            raise ValueError("write-fault positions are counted from the pre-state; not available for pairs")
        self.labels = alphabet.Labels(seed)
        self.universe = universe
        self.keys = self.labels.keys(universe)
        self.vals = [self.labels.value(v) for v in values]
        self.prune = prune
        self.props = set(props)
        self.batch_len = batch_len
        self.forms = tuple(forms)
        self.exits = tuple(exits)
        self.write_faults = write_faults
        self.nested = nested
        self.direct = direct
        self.probes = self.labels.probes(universe)
        self.stats = collections.Counter()
        self.ops = []
        for k in self.keys:
            for v in self.vals:
                self.ops.append(("set", k, v))
            self.ops.append(("del", k))
            self.ops.append(("clr", k))
        bkeys = self.labels.keys(batch_universe) if batch_universe else self.keys
        self.batch_ops = []
        for k in bkeys:
            for v in self.vals:
                self.batch_ops.append(("set", k, v))
            self.batch_ops.append(("del", k))
        self.batches = []
        for n in range(0, batch_len + 1):
            if batch_len == 0:
                break
            for seq in itertools.product(self.batch_ops, repeat=n):
                self.batches.append(seq)
        for seq in extra_batches:
            self.batches.append(tuple(tuple(o) for o in seq))

    def describe(self):
        return dict(system="HexSys", kwargs=self.kw)

    # ------------------------------------------------------------------ engine API
    def initial(self):
        t = HexaryTrie(LogDict(), prune=self.prune)
        return [(snapshot(t), {})]

    canon = staticmethod(canon)

    def task_reset(self):
        clear = getattr(getattr(HexaryTrie, "_cached_create_node_to_db_mapping", None), "cache_clear", None)
        if clear is not None:  # a memo of a pure function; cleared between tasks only to keep workers independent
            clear()

    def events(self, snap, model):
        if self.pairs:
            base = self._events(snap, model)
            return [("pair", a, b) for a in base for b in base]
        if self.chain:
            base = self._events(snap, model)
            return [("pair",) + c for c in itertools.product(base, repeat=self.chain)]
        return self._events(snap, model)

    def _events(self, snap, model):
        evs = []
        if self.direct:
            for op in self.ops:
                for f in self.forms:
                    evs.append(("op", op, f))
                    if self.write_faults and not self.prune:
                        w = self._count_writes(snap, ("op", op, f))
                        for n in range(w):
                            evs.append(("opwf", op, f, n))
                            evs.append(("opwf", op, f, n, "keyerror"))
        for seq in self.batches:
            if "commit" in self.exits:
                evs.append(("batch", seq, ("commit",)))
            if "abort" in self.exits:
                for j in range(len(seq) + 1):
                    evs.append(("batch", seq, ("abort", j)))
            if "cancel" in self.exits:
                evs.append(("batch", seq, ("cancel", len(seq))))
                evs.append(("batch", seq, ("abort", len(seq), "keyerror")))  # the caller's own code raises a KeyError
            if "badarg" in self.exits:
                for j in range(len(seq) + 1):
                    evs.append(("batch", seq, ("badarg", j)))
            if "wfail" in self.exits and not self.prune:
                w = self._count_writes(snap, ("batch", seq, ("commit",)))
                for n in range(w):
                    evs.append(("batch", seq, ("wfail", n)))
                    evs.append(("batch", seq, ("wfail", n, "keyerror")))
            if self.nested and len(seq) == 1:
                for inner in self.batches:
                    if len(inner) == 1:
                        for oe in ("commit", "abort"):
                            for ie in ("commit", "abort"):
                                evs.append(("nested", seq, inner, oe, ie))
        return evs

    def _count_writes(self, snap, ev):
        t = restore(snap)
        m = {}
        try:
            if ev[0] == "op":
                t.db.reset_log()
                apply_op(t, m, ev[1], ev[2])
                return t.db.nwrites
            else:
                with t.squash_changes() as b:
                    for op in ev[1]:
                        apply_op(b, m, op)
                    t.db.reset_log()
                return t.db.nwrites
        except Exception:
            return 0

    # ------------------------------------------------------------------ the transition
    def step(self, snap, model, ev):
        if ev[0] == "pair":
            # two consecutive events on ONE live object (no snapshot/restore in between): whatever the object keeps
            # between calls is live for the second event; the intermediate state gets the full state invariants too
            t = restore(snap)
            cur_snap, cur_model, viols = snap, model, []
            for i, sub in enumerate(ev[1:]):
                t.db.reset_log()
                st = self._do(t, cur_snap, cur_model, sub)
                viols += st.viols
                if st.snap is None or st.viols:
                    return Step(None, st.model, viols)
                cur_snap, cur_model = st.snap, st.model
                if i < len(ev) - 2 and not self.chain:
                    # (chains rely on the same-object probes after every sub-event; pairs also get the full state invariants)
                    viols += self.state_check(cur_snap, cur_model)
                    if viols:
                        return Step(None, cur_model, viols)
            return Step(cur_snap, cur_model, viols)
        return self._do(restore(snap), snap, model, ev)

    def _do(self, t, snap, model, ev):
        m = dict(model)
        viols = []
        pre_root, pre_db, pre_rc = snap
        P = self.props
        kind = ev[0]
        self.stats["ev:" + kind + (":" + ev[2][0] if kind == "batch" else "")] += 1
        expect_restore = False  # True when the event must leave the trie exactly as before
        if "C01" in P:
            # observe BEFORE the event on the object that will perform it: anything the object memoises across calls
            # (a lookup cache, a decoded root, ...) is then live during the event, as it would be for a real caller
            viols += self._probe(t, m, "C01", where="before_event", forms=("get",), probes=self.keys)
            if viols:
                return Step(None, m, viols)
        if kind == "op":
            try:
                apply_op(t, m, ev[1], ev[2])
            except Exception as e:  # noqa
                viols.append(V(self._p("C01"), "op_raised", f"{ev[1][0]} raised {type(e).__name__} on a complete database",
                               exc=repr(e)[:200], prune=self.prune))
                return Step(None, m, viols)
        elif kind == "opwf":
            op, form, n = ev[1:4]
            ke = len(ev) > 4
            t.db.arm(n, InjectedKeyError if ke else None)
            try:
                apply_op(t, {}, op, form)
            except InjectedWriteFailure:
                pass
            except (InjectedKeyError, MissingTrieNode, TypeError) as e:
                # a write failing with a KeyError subclass is reported by the library as a missing node (or trips over its
                # argument check); which exception comes out is not the property's business, the state afterwards is
                if not ke:
                    viols.append(V("C04", "wfail_other_exception", f"failing write surfaced as {type(e).__name__}", exc=repr(e)[:200]))
            except Exception as e:  # noqa
                viols.append(V("C04", "wfail_other_exception", f"failing write surfaced as {type(e).__name__}", exc=repr(e)[:200]))
            else:
                viols.append(V("C04", "wfail_swallowed", "the failing database write was swallowed"))
            t.db.fail_at = None
            expect_restore = True
            viols += self._after_failed_write(t, snap, model, "C04")
        elif kind == "batch":
            viols += self._batch(t, m, ev, snap, model)
            if ev[2][0] != "commit":
                m = dict(model)
                expect_restore = True
        elif kind == "nested":
            viols += self._nested(t, m, ev, snap, model)
            if ev[3] != "commit":
                m = dict(model)
        else:
            raise ValueError(ev)
        if getattr(t, "_pending_prune_keys", None) is not None:
            viols.append(V(self._p("C06"), "pending_prune_left", "_pending_prune_keys not reset after the call"))
        post = snapshot(t)
        # ---- transition invariants
        if "C02" in P or "C05" in P:
            want = mpt.root(m)
            if post[0] != want:
                viols.append(V("C02" if "C02" in P else "C05", "root_not_canonical",
                               "root hash differs from the canonical MPT root of the contents",
                               got=post[0], want=want, model=m, prune=self.prune, event=kind))
        if not self.prune and ("C04" in P or "C05" in P):
            viols += self._append_only(t, snap, post, "C04" if "C04" in P else "C05", kind)
        if "C01" in P:
            # ... and AFTER the event on the very same object (the state check probes a freshly restored one)
            viols += self._probe(t, m, "C01", where="after_event_same_object", forms=("get", "contains"), probes=self.keys)
        self.stats["transitions"] += 1
        return Step(post, m, viols)

    def _p(self, preferred):
        if preferred in self.props or not self.props:
            return preferred
        return sorted(self.props)[0]

    # ------------------------------------------------------------------ batches
    def _batch(self, t, m, ev, snap, model):
        _, seq, exit_ = ev
        viols = []
        P = self.props
        pre_db = snap[1]
        exc_obj = BatchAbort("abort")
        if exit_[0] == "abort" and len(exit_) > 2:
            exc_obj = CallerKeyError("raised by the caller's code inside the block")
        try:
            with t.squash_changes() as b:
                for j, op in enumerate(seq):
                    if exit_[0] in ("abort", "badarg", "cancel") and exit_[1] == j:
                        self._leave(b, exit_, exc_obj)
                    apply_op(b, m, op, "m" if j % 2 == 0 else "i")
                    if "C01" in P:
                        viols += self._probe(b, m, "C01", where="in_batch")
                    if "C06" in P or "C05" in P:
                        # the batch trie is itself a pruning trie: its root must be canonical
                        if b.root_hash != mpt.root(m):
                            viols.append(V(self._p("C05"), "batch_root_not_canonical", "batch trie root differs from canonical root",
                                           got=b.root_hash, want=mpt.root(m), prune=self.prune))
                if exit_[0] in ("abort", "badarg", "cancel") and exit_[1] == len(seq):
                    self._leave(b, exit_, exc_obj)
                batch_root = b.root_hash
                if exit_[0] == "wfail":
                    t.db.arm(exit_[1], InjectedKeyError if len(exit_) > 2 else None)
        except BatchCancel:
            if exit_[0] != "cancel":
                raise
            viols += self._abort_restored(t, snap, model, "cancel")
        except BatchAbort as e:
            if exit_[0] != "abort" or e is not exc_obj:
                viols.append(V("C05", "abort_wrong_exception", "a different exception object left the block"))
            viols += self._abort_restored(t, snap, model, "abort")
        except ValidationError as e:
            if exit_[0] != "badarg":
                viols.append(V(self._p("C05"), "batch_raised", f"batch raised {type(e).__name__}", exc=repr(e)[:200], prune=self.prune))
            viols += self._abort_restored(t, snap, model, "badarg")
        except CallerKeyError as e:
            if e is not exc_obj:
                viols.append(V("C05", "abort_wrong_exception", "a different exception object left the block"))
            viols += self._abort_restored(t, snap, model, "abort_keyerror")
        except (InjectedWriteFailure, InjectedKeyError):
            t.db.fail_at = None
            if exit_[0] != "wfail":
                raise
            viols += self._after_failed_write(t, snap, model, "C05")
        except Exception as e:  # noqa
            viols.append(V(self._p("C05"), "batch_raised", f"batch raised {type(e).__name__}", exc=repr(e)[:200], prune=self.prune,
                           event=exit_[0]))
        else:
            if exit_[0] == "wfail":
                viols.append(V("C05", "wfail_swallowed", "the failing commit write was swallowed"))
            elif exit_[0] != "commit":
                viols.append(V("C05", "abort_swallowed", "the exception raised in the block was swallowed"))
            else:
                if "C05" in P:
                    viols += self._commit_checks(t, m, snap, batch_root)
        t.db.fail_at = None
        return viols

    def _leave(self, b, exit_, exc_obj):
        if exit_[0] == "abort":
            raise exc_obj
        if exit_[0] == "cancel":
            raise BatchCancel()
        # abort by an operation that raises: an ill-typed value, not caught by the caller
        b.set(self.keys[0], "not-bytes")
        raise AssertionError("ill-typed value accepted")

    def _commit_checks(self, t, m, snap, batch_root):
        viols = []
        pre_root, pre_db, pre_rc = snap
        want = mpt.root(m)
        if t.root_hash != batch_root:
            viols.append(V("C05", "outer_root_not_batch_root", "outer root differs from the batch's final root",
                           outer=t.root_hash, batch=batch_root, prune=self.prune))
        db = t.db.plain()
        clo, missing = mpt.closure(db, t.root_hash)
        if missing:
            viols.append(V("C05", "commit_node_missing", "a node needed for the new root is not in the database",
                           missing=sorted(missing), prune=self.prune, field="closure"))
        if not self.prune:
            for k, v in pre_db.items():
                if db.get(k) != v:
                    viols.append(V("C05", "commit_removed_entry", "a pre-existing entry was removed or changed by a non-pruning commit", key=k))
                    break
            added = set(db) - set(pre_db)
            extra = added - set(clo)
            if extra and not missing and t.root_hash == want:
                viols.append(V("C05", "commit_leaked_intermediate", "commit added a node that only served intermediate states",
                               extra=sorted(extra), prune=False, field="db"))
        return viols

    def _abort_restored(self, t, snap, model, event):
        viols = []
        if "C05" not in self.props:
            return viols  # other properties judge the resulting state through their own invariants
        post = snapshot(t)
        pre_root, pre_db, pre_rc = snap
        if post[0] != pre_root:
            viols.append(V("C05", "abort_restores", "outer root changed by an aborted batch", field="root", prune=self.prune, event=event))
        if post[1] != pre_db:
            viols.append(V("C05", "abort_restores", "database changed by an aborted batch", field="db", prune=self.prune, event=event,
                           added=sorted(set(post[1]) - set(pre_db)), removed=sorted(set(pre_db) - set(post[1]))))
        if post[2] != pre_rc:
            viols.append(V("C05", "abort_restores", "reference counts changed by an aborted batch", field="ref_count", prune=self.prune, event=event,
                           before=pre_rc, after=post[2]))
        return viols

    def _after_failed_write(self, t, snap, model, prop):
        viols = []
        pre_root, pre_db, pre_rc = snap
        if t.root_hash != pre_root:
            viols.append(V(prop, "wfail_root_changed", "root changed although a database write failed", field="root"))
        db = t.db.plain()
        for k, v in pre_db.items():
            if db.get(k) != v:
                viols.append(V(prop, "wfail_lost_entry", "an existing entry was removed or changed", key=k, field="db"))
                break
        for k in set(db) - set(pre_db):
            if mpt.keccak(db[k]) != k:
                viols.append(V(prop, "wfail_bad_entry", "a new entry is not content-addressed", key=k, field="db"))
                break
        viols += self._probe(t, model, prop, where="after_failed_write")
        return viols

    def _nested(self, t, m, ev, snap, model):
        _, oseq, iseq, oe, ie = ev
        viols = []
        m_outer_before = dict(m)
        try:
            with t.squash_changes() as b:
                apply_op(b, m, oseq[0])
                m_mid = dict(m)
                try:
                    with b.squash_changes() as bb:
                        apply_op(bb, m, iseq[0])
                        if ie == "abort":
                            raise BatchAbort("inner")
                except BatchAbort:
                    m.clear()
                    m.update(m_mid)
                if b.root_hash != mpt.root(m):
                    viols.append(V("C05", "nested_batch_root", "batch root after nested block is not canonical", inner_exit=ie, prune=self.prune))
                if "C01" in self.props or "C05" in self.props:
                    viols += self._probe(b, m, self._p("C05"), where="after_nested")
                if oe == "abort":
                    raise BatchAbort("outer")
        except BatchAbort:
            viols += self._abort_restored(t, snap, model, "nested_abort")
        except Exception as e:  # noqa
            viols.append(V("C05", "batch_raised", f"nested batch raised {type(e).__name__}", exc=repr(e)[:200], prune=self.prune, event="nested"))
        return viols

    # ------------------------------------------------------------------ invariants
    def _append_only(self, t, snap, post, prop, kind):
        viols = []
        pre_root, pre_db, _ = snap
        db = post[1]
        if t.db.dels:
            viols.append(V(prop, "nonpruning_deleted", "a non-pruning trie deleted database entries", keys=t.db.dels[:4], event=kind))
        for k, v in pre_db.items():
            if db.get(k) != v:
                viols.append(V(prop, "entry_removed_or_changed", "an existing entry was removed or changed", key=k, event=kind))
                break
        for k in set(db) - set(pre_db):
            if mpt.keccak(db[k]) != k:
                viols.append(V(prop, "entry_not_content_addressed", "new entry key is not keccak(value)", key=k, event=kind))
                break
        clo, missing = mpt.closure(db, post[0])
        if missing:
            viols.append(V(prop, "new_root_incomplete", "closure of the new root is not completely present", missing=sorted(missing), event=kind))
        # guard of DESIGN 2.2: reads stay inside closure(root_before) + entries written in this call
        pre_clo, _ = mpt.closure(pre_db, pre_root)
        written = {k for k, _ in t.db.writes}
        bad = [k for k in t.db.reads if k not in pre_clo and k not in written]
        if bad:
            viols.append(V(prop, "read_outside_closure", "an entry not reachable from the current root was read", keys=bad[:4], event=kind))
        return viols

    def _probe(self, t, m, prop, where="state", forms=("get", "getitem", "exists", "contains"), probes=None):
        viols = []
        given = probes
        probes = self.probes
        if prop == "C06":
            probes = sorted(m)  # C06: "every stored key stays readable"
        elif prop == "C05":
            probes = self.keys
        if given is not None:
            probes = given
        for p in probes:
            want = m.get(p, b"")
            for form in forms:
                try:
                    if form == "get":
                        got, exp = t.get(p), want
                    elif form == "getitem":
                        got, exp = t[KeyBytes(p)], want
                    elif form == "exists":
                        got, exp = t.exists(p), want != b""
                    else:
                        got, exp = (p in t), want != b""
                except Exception as e:  # noqa
                    viols.append(V(prop, "lookup_raised", f"{form}({p.hex()}) raised {type(e).__name__} on a complete database",
                                   form=form, key=p, exc=repr(e)[:160], where=where, exc_type=type(e).__name__))
                    break
                if got != exp or type(got) is not type(exp):
                    viols.append(V(prop, "lookup_wrong", f"{form}({p.hex()}) returned {got!r}, map model says {exp!r}",
                                   form=form, key=p, where=where))
                    break
            if len(viols) >= 3:
                break
        return viols

    def state_check(self, snap, model):
        viols = []
        P = self.props
        root, db, rc = snap
        self.stats["states_checked"] += 1
        t = None
        if "C01" in P or "C05" in P or "C06" in P:
            t = restore(snap)
            viols += self._probe(t, model, "C01" if "C01" in P else self._p("C06"))
            if "C01" in P and not self.prune:
                pre_clo, _ = mpt.closure(db, root)
                bad = [k for k in t.db.reads if k not in pre_clo]
                if bad:
                    viols.append(V("C01", "read_outside_closure", "a lookup read an entry not reachable from the root", keys=bad[:4]))
                if t.db.writes or t.db.dels:
                    viols.append(V("C01", "lookup_mutated_db", "a lookup wrote to the database"))
        if "C02" in P:
            want = mpt.root(model)
            if root != want:
                viols.append(V("C02", "root_not_canonical", "root differs from canonical root", got=root, want=want, model=model, prune=self.prune))
            if (root == mpt.BLANK_ROOT) != (not model):
                viols.append(V("C02", "blank_root_iff_empty", "blank root hash does not coincide with empty contents", model=model))
            if model:
                tr = mpt.tree(model)
                body = db.get(root)
                if body != tr.enc:
                    viols.append(V("C02", "root_body_not_canonical", "bytes stored under the root hash are not the canonical root node",
                                   got=body, want=tr.enc))
                elif mpt.keccak(body) != root:
                    viols.append(V("C02", "root_body_hash", "keccak(db[root]) != root"))
            for n in mpt.walk(mpt.tree(model)):
                self.stats["enc_len:%d" % min(len(n.enc), 40)] += 1
                self.stats["kind:%s:%s" % (n.kind, "hashed" if n.hashed else "embedded")] += 1
        if "C06" in P and self.prune:
            counts, bodies = mpt.nodes(model)
            if db != bodies:
                miss = sorted(set(bodies) - set(db))
                extra = sorted(set(db) - set(bodies))
                if miss:
                    viols.append(V("C06", "live_node_missing", "a node reachable from the root is missing from the database",
                                   field="db", missing=miss, prune=True))
                if extra:
                    viols.append(V("C06", "garbage_left", "database holds a node that is not reachable from the root",
                                   field="db", extra=extra, prune=True))
                if not miss and not extra:
                    viols.append(V("C06", "body_differs", "a stored body differs from the canonical encoding", field="db", prune=True))
            if rc != counts:
                viols.append(V("C06", "ref_count_wrong", "reported reference counts differ from the number of references in the trie",
                               field="ref_count", got=rc, want=counts, prune=True))
            else:
                self.stats["max_refcount:%d" % (max(counts.values()) if counts else 0)] += 1
            try:
                # the documented way to re-open a pruning trie: hand it the regenerated counts, then keep using it
                base = restore(snap, logdict=False)
                t2 = HexaryTrie(dict(db), bytes(bytearray(root)), prune=True, ref_count=base.regenerate_ref_count())
                m2 = dict(model)
                apply_op(t2, m2, ("set", self.keys[0], self.vals[-1]))
                apply_op(t2, m2, ("set", self.keys[-1], self.vals[0]))
                apply_op(t2, m2, ("del", self.keys[0]))
                counts2, bodies2 = mpt.nodes(m2)
                if t2.root_hash != mpt.root(m2) or dict(t2.db) != bodies2:
                    viols.append(V("C06", "reopened_with_regenerated_counts", "a pruning trie re-opened with regenerate_ref_count() does not stay exact",
                                   field="db", prune=True))
            except Exception as e:  # noqa
                viols.append(V("C06", "reopened_with_regenerated_counts", f"a pruning trie re-opened with regenerate_ref_count() raised {type(e).__name__}",
                               field="db", prune=True, exc=repr(e)[:160]))
            try:
                regen = {k: v for k, v in (t or restore(snap)).regenerate_ref_count().items() if v}
                if regen != counts:
                    viols.append(V("C06", "regenerate_ref_count_wrong", "regenerate_ref_count() differs from the true reference counts",
                                   field="regen", got=regen, want=counts, prune=True))
            except Exception as e:  # noqa
                viols.append(V("C06", "regenerate_raised", f"regenerate_ref_count raised {type(e).__name__}", field="regen", prune=True))
        return viols

    # ------------------------------------------------------------------ live replay (no snapshots)
    def live_new(self, init_index):
        return [HexaryTrie(LogDict(), prune=self.prune), {}]

    def live_apply(self, live, ev):
        t, m = live
        kind = ev[0]
        if kind == "pair":
            for sub in ev[1:]:
                self.live_apply(live, sub)
            return
        if kind == "op":
            apply_op(t, m, ev[1], ev[2])
        elif kind == "opwf":
            t.db.arm(ev[3], InjectedKeyError if len(ev) > 4 else None)
            try:
                apply_op(t, {}, ev[1], ev[2])
            except (InjectedWriteFailure, InjectedKeyError, MissingTrieNode, TypeError):
                pass
            t.db.fail_at = None
        elif kind == "batch":
            _, seq, exit_ = ev
            m2 = dict(m)
            try:
                with t.squash_changes() as b:
                    for j, op in enumerate(seq):
                        if exit_[0] in ("abort", "badarg", "cancel") and exit_[1] == j:
                            raise BatchAbort()
                        apply_op(b, m2, op, "m" if j % 2 == 0 else "i")
                    if exit_[0] in ("abort", "badarg", "cancel"):
                        raise BatchAbort()
                    if exit_[0] == "wfail":
                        t.db.arm(exit_[1], InjectedKeyError if len(exit_) > 2 else None)
            except (BatchAbort, InjectedWriteFailure, InjectedKeyError):
                pass
            else:
                m.clear()
                m.update(m2)
            t.db.fail_at = None
        elif kind == "nested":
            _, oseq, iseq, oe, ie = ev
            m2 = dict(m)
            try:
                with t.squash_changes() as b:
                    apply_op(b, m2, oseq[0])
                    m_mid = dict(m2)
                    try:
                        with b.squash_changes() as bb:
                            apply_op(bb, m2, iseq[0])
                            if ie == "abort":
                                raise BatchAbort()
                    except BatchAbort:
                        m2 = m_mid
                    if oe == "abort":
                        raise BatchAbort()
            except BatchAbort:
                pass
            else:
                m.clear()
                m.update(m2)

    def live_canon(self, live):
        return canon(snapshot(live[0]))

    def live_check(self, live):
        """observations on the long-lived trie after every replayed event"""
        t, m = live
        if "C01" in self.props:
            return self._probe(t, m, "C01", where="long_lived_object", forms=("get", "contains"), probes=self.keys)
        return []
