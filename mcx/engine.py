"""mcx — explicit-state explorer that drives the real py-trie objects.

A *system* supplies
    initial()                -> [(snap, model), ...]
    events(snap, model)      -> [event, ...]              finite, deterministic order
    step(snap, model, ev)    -> Step                      runs the REAL code on restore(snap)
    canon(snap)              -> hashable                  dedup key (see DESIGN 2.2)
    state_check(snap, model) -> [violation dict, ...]     invariants evaluated once per state
    live_new(init_index) / live_apply(live, ev) / live_canon(live)     replay without snapshots
    describe()               -> dict (name + kwargs; enough to rebuild the system)

Search is level-synchronous BFS, sharded over a fork pool; results are merged in
(parent index, event index) order so a run is reproducible whatever the worker timing.
A successor reached through a violating transition is recorded but never expanded.
"""
import collections
import hashlib
import multiprocessing as mp
import os
import time

WORKERS = int(os.environ.get("MCX_WORKERS", "0") or 0) or min(16, os.cpu_count() or 1)


class Step:
    __slots__ = ("snap", "model", "viols", "obs", "poisoned")

    def __init__(self, snap, model, viols=(), obs=None, poisoned=False):
        self.snap = snap
        self.model = model
        self.viols = list(viols)
        self.obs = obs
        self.poisoned = poisoned


def digest(x):
    return hashlib.sha256(repr(x).encode()).digest()[:16]


def jsonable(x):
    if isinstance(x, (bytes, bytearray)):
        return "0x" + bytes(x).hex()
    if isinstance(x, (list, tuple)):
        return [jsonable(i) for i in x]
    if isinstance(x, dict):
        return {(k if isinstance(k, str) else jsonable(k) if isinstance(k, (bytes,)) else str(k)): jsonable(v) for k, v in x.items()}
    if isinstance(x, (set, frozenset)):
        return sorted((jsonable(i) for i in x), key=repr)
    if isinstance(x, (str, int, float, bool)) or x is None:
        return x
    return repr(x)


def unjson(x):
    """inverse of jsonable for event lists: '0x..' -> bytes, lists -> tuples"""
    if isinstance(x, str) and x.startswith("0x"):
        return bytes.fromhex(x[2:])
    if isinstance(x, list):
        return tuple(unjson(i) for i in x)
    if isinstance(x, dict):
        return {k: unjson(v) for k, v in x.items()}
    return x


_SYS = None


def _unexpected(e, where):
    """an exception nobody anticipated escaped from the library while a state was examined: that is a verdict about the
    library (on the unchanged tree it never happens), not a harness crash"""
    import traceback
    return dict(check="unexpected_exception", sig=dict(check="unexpected_exception", where=where),
                msg=f"{where}: {type(e).__name__}: {e!r:.120}", detail=dict(trace=traceback.format_exc()[-600:]))


def _expand(chunk):
    """worker: expand a chunk [(idx, snap, model)] -> results, stats delta"""
    sysm = _SYS
    sysm.stats = collections.Counter()
    if hasattr(sysm, "task_reset"):
        sysm.task_reset()
    out = []
    sent = set()
    for item in chunk:
        idx, snap, model = item[:3]
        k, nsl = item[3] if len(item) > 3 else (0, 1)
        # a state's events may be split into nsl strided slices (few states with very many events each); slice 0 also
        # evaluates the state invariants
        try:
            sv = sysm.state_check(snap, model) if k == 0 else []
        except Exception as e:  # noqa
            sv = [_unexpected(e, "state invariants")]
        succ = []
        if not sv:
            for ei, ev in enumerate(sysm.events(snap, model)):
                if ei % nsl != k:
                    continue
                try:
                    st = sysm.step(snap, model, ev)
                except HarnessError:
                    raise
                except Exception as e:  # noqa
                    st = Step(None, model, [_unexpected(e, "transition")])
                if st is None:  # event not enabled
                    continue
                c = sysm.canon(st.snap) if st.snap is not None else None
                if c is not None and c not in sent:
                    sent.add(c)
                    payload = st.snap
                else:
                    payload = None
                succ.append((ei, ev, c, payload, st.model, st.viols, st.obs, st.poisoned))
        out.append((idx, sv, succ))
    return out, sysm.stats


class Result:
    def __init__(self):
        self.states = 0
        self.transitions = 0
        self.merges = 0
        self.levels = []
        self.violations = []  # dicts with 'hist'
        self.nviol = 0
        self.capped = None
        self.exhaustive = False
        self.stats = collections.Counter()
        self.replayed = 0
        self.samples = []
        self.wall = 0.0
        self.terminal_states = 0
        self.paths_to_terminals = 0
        self.late_edges = 0
        self.max_depth = 0
        self.state_list = None  # optional: [(snap, model, hist)]


def explore(sysm, *, state_cap=200000, depth_cap=None, keep_states=False, max_viol=40,
            validate_replays=True, replay_cap=None, workers=None, stop_on_violation_count=2000,
            stop_at_first_violating_level=True):
    global _SYS
    t0 = time.time()
    res = Result()
    workers = workers or WORKERS
    # state table
    snaps, models, parents, canons = [], [], [], []
    seen = {}
    frontier = []
    for i, (snap, model) in enumerate(sysm.initial()):
        c = sysm.canon(snap)
        if c in seen:
            continue
        seen[c] = len(snaps)
        snaps.append(snap)
        models.append(model)
        parents.append((None, ("init", i)))
        canons.append(c)
        frontier.append(seen[c])
    _SYS = sysm
    pool = mp.get_context("fork").Pool(workers) if workers > 1 else None
    depth = 0
    poisoned = set()
    alt_parent = {}
    pathcount = {i: 1 for i in frontier}  # number of distinct event sequences (schedules) from an initial state
    level_of = {i: 0 for i in frontier}
    try:
        while frontier:
            if depth_cap is not None and depth >= depth_cap:
                res.capped = f"depth_cap={depth_cap}"
                break
            res.levels.append(len(frontier))
            items = [(i, snaps[i], models[i]) for i in frontier]
            nsl = 1
            if pool is not None and len(items) < workers * 4 and getattr(sysm, "many_events", False):
                nsl = max(1, (workers * 4) // max(1, len(items)))
                items = [(i, sn, mo, (k, nsl)) for (i, sn, mo) in items for k in range(nsl)]
            nchunks = max(1, min(len(items), workers * 4))
            size = (len(items) + nchunks - 1) // nchunks
            chunks = [items[j : j + size] for j in range(0, len(items), size)]
            if pool is not None and len(items) > 1:
                results = pool.map(_expand, chunks)
            else:
                results = [_expand(ch) for ch in chunks]
            nxt = []
            payloads = {}
            if nsl > 1:
                merged = {}
                for out, stats in results:
                    for idx, sv, succ in out:
                        e = merged.setdefault(idx, [[], []])
                        e[0] += sv
                        e[1] += succ
                combined = [(idx, e[0], sorted(e[1], key=lambda x: x[0])) for idx, e in sorted(merged.items(), key=lambda kv: frontier.index(kv[0]) if len(frontier) < 5000 else kv[0])]
                allstats = collections.Counter()
                for out, stats in results:
                    allstats.update(stats)
                results = [(combined, allstats)]
            for out, stats in results:
                res.stats.update(stats)
                for idx, sv, succ in out:
                    for (_, _, c, payload, _, _, _, _) in succ:
                        if payload is not None and c not in payloads:
                            payloads[c] = payload
            for out, stats in results:
                for idx, sv, succ in out:
                    for v in sv:
                        res.nviol += 1
                        if len(res.violations) < max_viol:
                            v = dict(v)
                            v["hist"] = _hist(parents, idx)
                            res.violations.append(v)
                    if not succ:
                        res.terminal_states += 1
                        res.paths_to_terminals += pathcount.get(idx, 0)
                    for (ei, ev, c, payload, model2, viols, obs, pois) in succ:
                        res.transitions += 1
                        for v in viols:
                            res.nviol += 1
                            if len(res.violations) < max_viol:
                                v = dict(v)
                                v["hist"] = _hist(parents, idx) + [ev]
                                res.violations.append(v)
                        if c is None:
                            continue
                        j = seen.get(c)
                        if j is None:
                            if viols or pois:
                                # never expand below a violation / known finding
                                if c not in poisoned:
                                    poisoned.add(c)
                                continue
                            j = len(snaps)
                            level_of[j] = depth + 1
                            seen[c] = j
                            snaps.append(payloads[c])
                            models.append(model2)
                            parents.append((idx, ev))
                            canons.append(c)
                            nxt.append(j)
                            pathcount[j] = pathcount.get(j, 0) + pathcount.get(idx, 0)
                        else:
                            res.merges += 1
                            if level_of.get(j, 0) != depth + 1:
                                res.late_edges += 1  # an edge that does not go to the next level: path counts are then a lower bound
                            if not viols and not pois:
                                alt_parent[j] = (idx, ev)  # the LAST transition found into j (BFS keeps the first as parent)
                            if not viols and not pois:
                                pathcount[j] = pathcount.get(j, 0) + pathcount.get(idx, 0)
                            if not viols and not pois and models[j] != model2:
                                res.nviol += 1
                                if len(res.violations) < max_viol:
                                    res.violations.append(
                                        dict(
                                            check="model_merge",
                                            sig=dict(check="model_merge"),
                                            msg="two histories reach the same real state but different model contents",
                                            detail=dict(other_hist=jsonable(_hist(parents, j)), model_a=jsonable(models[j]), model_b=jsonable(model2)),
                                            hist=_hist(parents, idx) + [ev],
                                        )
                                    )
            if not keep_states:
                for i in frontier:  # expanded states are never needed again (history lives in `parents`)
                    snaps[i] = None
            frontier = nxt
            depth += 1
            if len(snaps) > state_cap:
                res.capped = f"state_cap={state_cap}"
                break
            if res.nviol >= stop_on_violation_count:
                res.capped = f"violations>={stop_on_violation_count}"
                break
            if res.nviol and stop_at_first_violating_level and frontier:
                # BFS: the shortest counterexamples are already in hand; a broken implementation can make
                # the space explode (e.g. leaking pruning tries), so do not dig below the first violating level
                res.capped = f"stopped after the first level with violations (depth {depth})"
                break
        # state invariants for a frontier left unexpanded by a cap
        if frontier and res.capped:
            items = [(i, snaps[i], models[i]) for i in frontier]
            for idx, snap, model in items:
                for v in sysm.state_check(snap, model):
                    res.nviol += 1
                    if len(res.violations) < max_viol:
                        v = dict(v)
                        v["hist"] = _hist(parents, idx)
                        res.violations.append(v)
    finally:
        if pool is not None:
            pool.close()
            pool.join()
    res.states = len(snaps)
    res.max_depth = depth
    res.exhaustive = res.capped is None and not frontier
    # replay validation: every state's shortest history on ONE live object, no snapshots -- and, for every state that was
    # reached more than once, also the last-found other way into it (parent's history + that event), so that events which
    # are never first to discover a state (batches, faults) are exercised on long-lived objects too.  After every event of
    # a replay the system may observe the live object (live_check): what an object memoises across calls is invisible to
    # snapshot/restore exploration, a long-lived object shows it.
    if validate_replays and hasattr(sysm, "live_new") and not res.nviol:
        global _REPLAY_CTX
        n = len(snaps) if replay_cap is None else min(len(snaps), replay_cap)
        idxs = list(range(len(snaps))) if n == len(snaps) else _spread(len(snaps), n)
        _REPLAY_CTX = (parents, alt_parent, canons)
        nch = max(1, min(len(idxs), workers * 4))
        size = (len(idxs) + nch - 1) // nch
        chunks = [idxs[j: j + size] for j in range(0, len(idxs), size)]
        if workers > 1 and len(idxs) > 64:
            rp = mp.get_context("fork").Pool(workers)
            try:
                outs = rp.map(_replay_chunk, chunks)
            finally:
                rp.close()
                rp.join()
        else:
            outs = [_replay_chunk(ch) for ch in chunks]
        for count, viols, mismatch in outs:
            if mismatch:
                raise HarnessError(mismatch)
            res.replayed += count
            for v in viols:
                res.nviol += 1
                if len(res.violations) < max_viol:
                    res.violations.append(v)
    # samples
    picks = _spread(len(snaps), min(5, len(snaps)))
    for i in (picks[1:] if len(picks) > 1 else picks):  # skip the initial state: a sample should show a real history
        res.samples.append(dict(history=jsonable(_hist(parents, i)), model=jsonable(models[i])))
    if keep_states:
        res.state_list = [(snaps[i], models[i], _hist(parents, i)) for i in range(len(snaps))]
    res.wall = time.time() - t0
    return res


def _spread(n, k):
    if k <= 0 or n <= 0:
        return []
    if k >= n:
        return list(range(n))
    return sorted({int(i * (n - 1) / (k - 1)) if k > 1 else 0 for i in range(k)})


def _hist(parents, idx):
    out = []
    while idx is not None:
        p, ev = parents[idx]
        out.append(ev)
        idx = p
    out.reverse()
    return out


_REPLAY_CTX = None


def _replay_chunk(idxs):
    sysm = _SYS
    parents, alt_parent, canons = _REPLAY_CTX
    has_check = hasattr(sysm, "live_check")
    if hasattr(sysm, "task_reset"):
        sysm.task_reset()
    count, viols = 0, []
    for i in idxs:
        hs = [_hist(parents, i)]
        if i in alt_parent:
            hs.append(_hist(parents, alt_parent[i][0]) + [alt_parent[i][1]])
        for h in hs:
            live = sysm.live_new(h[0][1])
            for k, ev in enumerate(h[1:]):
                sysm.live_apply(live, ev)
                if has_check and len(viols) < 8:
                    for v in sysm.live_check(live):
                        v = dict(v)
                        v["hist"] = h[: k + 2]
                        v.setdefault("detail", {})["observed_on"] = "long-lived object during replay validation"
                        viols.append(v)
            if sysm.live_canon(live) != canons[i]:
                # the same history, executed on ONE long-lived object, ends in a different observable state than when every step
                # starts from a freshly built object: the object carries something from call to call that changes what it does.
                # On the unchanged library this never happens; it is reported as a violation (with the history), not as a
                # harness problem.
                viols.append(dict(check="long_lived_object_diverges", sig=dict(check="long_lived_object_diverges"),
                                  msg="a history executed on one long-lived object ends in a different state than with a fresh object per step",
                                  detail=dict(observed_on="long-lived object during replay validation"), hist=h))
            count += 1
    return count, viols, None


class HarnessError(Exception):
    """Something is wrong with the machinery (not a property verdict): exit 2."""


_PMAP_FN = None


def _pmap_call(args):
    return _PMAP_FN(*args)


def pmap(fn, arglist, workers=None, chunksize=1):
    """ordered parallel map over a fork pool (fn may be a closure: inherited by fork)"""
    global _PMAP_FN
    workers = workers or WORKERS
    arglist = list(arglist)
    if workers <= 1 or len(arglist) <= 1:
        return [fn(*a) for a in arglist]
    _PMAP_FN = fn
    pool = mp.get_context("fork").Pool(min(workers, len(arglist)))
    try:
        return pool.map(_pmap_call, arglist, chunksize)
    finally:
        pool.close()
        pool.join()


def run_history(sysm, history):
    """re-execute a recorded history through the system's step function -> (failing check names, last snap, last model)"""
    hist = [unjson(e) for e in history]
    snap, model = sysm.initial()[hist[0][1]]
    found = []
    for ev in hist[1:]:
        found += [v["check"] for v in sysm.state_check(snap, model)]
        st = sysm.step(snap, model, ev)
        found += [v["check"] for v in st.viols]
        if st.snap is None:
            return found, None, None
        snap, model = st.snap, st.model
    found += [v["check"] for v in sysm.state_check(snap, model)]
    return found, snap, model


def _warm_neighbours(sysm, history, cap=300):
    """what a search worker had done before it met the recorded state: expand (and check) the states along the history"""
    hist = [unjson(e) for e in history]
    try:
        snap, model = sysm.initial()[hist[0][1]]
        for ev in hist[1:] + [None]:
            for k, e2 in enumerate(sysm.events(snap, model)):
                if k >= cap:
                    break
                try:
                    st = sysm.step(snap, model, e2)
                    if st.snap is not None:
                        sysm.state_check(st.snap, st.model)
                except Exception:  # noqa
                    pass
            if ev is None:
                break
            st = sysm.step(snap, model, ev)
            if st.snap is None:
                break
            snap, model = st.snap, st.model
    except Exception:  # noqa
        pass


def replay_doc(make_sys, doc):
    """generic replay of a BFS violation: twice (determinism), True iff the recorded check fails again"""
    if _replay_doc(make_sys, doc, False):
        return True
    # not reproduced from the bare history: a defect that lives in process-wide state (a class-level dict, a module-level memo) was
    # observed by a worker that had examined the neighbouring states first; give the replay the same past and try once more
    return _replay_doc(make_sys, doc, True)


def _replay_doc(make_sys, doc, neighbours):
    outcomes = []
    if neighbours:
        # the recorded state is checked right after its neighbours were (re-checking the states along the history in between
        # would overwrite what the neighbours left behind in the process)
        for _ in range(2):
            sysm = make_sys()
            _, snap, model = run_history(sysm, doc["history"])
            if snap is None:
                return False
            _warm_neighbours(sysm, doc["history"])
            outcomes.append([v["check"] for v in sysm.state_check(snap, model)])
        if outcomes[0] != outcomes[1]:
            raise HarnessError("replay is not deterministic")
        print("replayed state after its neighbours; failing checks:", sorted(set(outcomes[0])))
        return doc["check"] in outcomes[0]
    # a warm-up pass first: the two recorded passes then start from the same kind of past
    run_history(make_sys(), doc["history"])
    for _ in range(2):
        sysm = make_sys()
        found, snap, model = run_history(sysm, doc["history"])
        if hasattr(sysm, "live_new") and (doc["check"] == "long_lived_object_diverges" or doc["check"] not in found):
            # the same history on ONE long-lived object, observed after every step exactly as the replay validation of the search does
            # (the observations are part of the history: a defect may live in what a read leaves behind in the object)
            hist = [unjson(e) for e in doc["history"]]
            try:
                live = sysm.live_new(hist[0][1])
                for ev in hist[1:]:
                    sysm.live_apply(live, ev)
                    if hasattr(sysm, "live_check"):
                        found += [v["check"] for v in sysm.live_check(live)]
                if snap is not None and sysm.live_canon(live) != sysm.canon(snap):
                    found.append("long_lived_object_diverges")
            except Exception as e:  # noqa
                if snap is not None:
                    found.append("long_lived_object_diverges")
                print("  (live replay raised %s)" % type(e).__name__)
        if doc["check"] == "model_merge" and snap is not None:
            other = (doc.get("detail") or {}).get("other_hist")
            if other:
                sys2 = make_sys()
                _, snap2, model2 = run_history(sys2, other)
                if snap2 is not None and sysm.canon(snap) == sys2.canon(snap2) and model != model2:
                    found.append("model_merge")
        outcomes.append(found)
    if outcomes[0] != outcomes[1]:
        raise HarnessError("replay is not deterministic")
    print("replayed history; failing checks:", sorted(set(outcomes[0])))
    return doc["check"] in outcomes[0]
