"""Scale probes: a few long deterministic histories on ONE live object, far beyond the small universes.

The closure searches are exhaustive over small alphabets; constants buried in the code
("at most 64 proof nodes", "spill after 1024 buffered entries", "keep the last 128
roots", a bounded frontier cache) only bite on big instances.  Each probe is one fixed
schedule (no sampling): a prefix chain of 40 nested keys (paths through > 64 nodes), a
16-way comb ten levels deep (> 128 pending frontier prefixes), a few dozen short keys,
inserted / overwritten / deleted one by one and in big batches (> 1024 buffered
entries), with the property's own assertions evaluated along the way.
"""
from collections import defaultdict

from trie import HexaryTrie
from trie.iter import NodeIterator
from trie.smt import SparseMerkleTree

from .dbs import LogDict
from .hexsys import V, BatchCancel
from .ref import mpt
from .ref.smt import Smt


def big_keys():
    keys = []
    for i in range(1, 41):                      # 40 prefix-nested keys: 11, 1111, 111111, ...
        keys.append(b"\x11" * i)
    for lvl in range(10):                       # a 16-way comb, ten levels deep, 6-byte keys
        for n in range(1, 16):
            nibs = [0] * lvl + [n] + [0] * (11 - lvl)
            keys.append(bytes(nibs[j] * 16 + nibs[j + 1] for j in range(0, 12, 2)))
    keys.append(b"\x00" * 6)
    for a in (0x20, 0x21, 0x2F, 0x80, 0xF0, 0xFF):
        for b in (0x00, 0x01, 0x7F, 0x80, 0xFF):
            keys.append(bytes([a, b]))
    keys.append(b"")
    return keys


def val(i):
    return (b"v%d" % i) if i % 3 else (b"L" * 33 + b"%d" % (i % 7))


def hex_scale(prop, prune):
    """-> (violations, evaluations).  prop in C01 C02 C03 C05 C06 C10 decides which assertions are evaluated."""
    viols, evals = [], 0
    keys = big_keys()
    t = HexaryTrie(LogDict(), prune=prune)
    m = {}

    def bad(check, msg, **d):
        if len(viols) < 3:
            viols.append(V(prop, check, msg, scale=True, prune=prune, **d))

    def observe(full):
        nonlocal evals
        evals += 1
        if prop in ("C02", "C05", "C06") or full:
            if t.root_hash != mpt.root(m):
                bad("root_not_canonical", "root hash differs from the canonical MPT root of the contents (scale probe)", size=len(m))
        if prop == "C06" and prune and full:
            counts, bodies = mpt.nodes(m)
            if t.db.plain() != bodies:
                bad("garbage_left" if set(t.db.plain()) - set(bodies) else "live_node_missing", "database is not exactly the live node set (scale probe)",
                    field="db", size=len(m))
            rc = {k: v for k, v in t.ref_count.items() if v}
            if rc != counts:
                bad("ref_count_wrong", "reference counts differ from the number of references (scale probe)", field="ref_count", size=len(m))
        if prop == "C01" and full:
            for k in keys[::3] + [b"\x11" * 41, b"\x00" * 5, b"\x20"]:
                try:
                    if t.get(k) != m.get(k, b"") or (k in t) != (k in m):
                        bad("lookup_wrong", f"get({k.hex()}) disagrees with the map model (scale probe)", form="get", key=k)
                        break
                except Exception as e:  # noqa
                    bad("lookup_raised", f"get({k.hex()}) raised {type(e).__name__} (scale probe)", form="get", key=k)
                    break
        if prop == "C03" and full:
            for k in keys[::5] + [b"\x11" * 41]:
                try:
                    proof = t.get_proof(k)
                    if HexaryTrie.get_from_proof(t.root_hash, k, proof) != m.get(k, b""):
                        bad("honest_proof_wrong", "get_from_proof(root, key, get_proof(key)) != get(key) (scale probe)", key=k)
                        break
                except Exception as e:  # noqa
                    bad("honest_proof_rejected", f"proof round trip raised {type(e).__name__} on a deep / wide trie (scale probe)", key=k, plen=len(m))
                    break
        if prop == "C10" and full:
            try:
                it = NodeIterator(t)
                if list(it.keys()) != sorted(m):
                    bad("iter_wrong", "keys() does not yield the stored keys in order on a deep / wide trie (scale probe)", call="keys", size=len(m))
                for q in keys[::7]:
                    bigger = [k for k in sorted(m) if k > q]
                    if it.next(q) != (bigger[0] if bigger else None):
                        bad("next_wrong", "next(k) is not the strict successor on a deep / wide trie (scale probe)", call="next", query=q)
                        break
            except Exception as e:  # noqa
                bad("iter_raised", f"iteration raised {type(e).__name__} on a deep / wide trie (scale probe)", call="keys", exc=repr(e)[:120])

    try:
        # 1. one by one
        for i, k in enumerate(keys):
            t.set(k, val(i))
            m[k] = val(i)
            observe(i % 40 == 39)
        observe(True)
        # 2. overwrite / delete / re-insert
        for i, k in enumerate(keys[::2]):
            if i % 3 == 0:
                t.delete(k)
                m.pop(k, None)
            else:
                t[k] = val(i + 1)
                m[k] = val(i + 1)
            observe(i % 40 == 39)
        observe(True)
        # 3. a big batch that is cancelled, then the same batch committed (more than 1024 buffered entries)
        snap_before = (t.root_hash, t.db.plain(), None if not prune else {k: v for k, v in t.ref_count.items() if v})
        for commit in (False, True):
            m2 = dict(m)
            try:
                with t.squash_changes() as b:
                    for i, k in enumerate(keys):
                        if i % 4 == 1:
                            b.delete(k)
                            m2.pop(k, None)
                        else:
                            b.set(k, val(i + 5))
                            m2[k] = val(i + 5)
                    if not commit:
                        raise BatchCancel()
            except BatchCancel:
                now = (t.root_hash, t.db.plain(), None if not prune else {k: v for k, v in t.ref_count.items() if v})
                evals += 1
                if prop == "C05" and now != snap_before:
                    bad("abort_restores", "a big aborted batch changed root, database or reference counts (scale probe)",
                        field="db" if now[1] != snap_before[1] else ("root" if now[0] != snap_before[0] else "ref_count"), event="cancel")
            else:
                pre_db = snap_before[1]
                m = m2
                observe(True)
                if prop == "C05" and not prune:
                    db = t.db.plain()
                    clo, missing = mpt.closure(db, t.root_hash)
                    if missing:
                        bad("commit_node_missing", "a node needed for the new root is missing after a big batch (scale probe)", field="closure")
                    extra = (set(db) - set(pre_db)) - set(clo)
                    if extra:
                        bad("commit_leaked_intermediate", "a big batch committed nodes that only served intermediate states (scale probe)", field="db",
                            count=len(extra))
        # 4. shrink back to nothing
        for i, k in enumerate(sorted(m)):
            t.delete(k)
            m.pop(k)
            observe(i % 50 == 49)
        observe(True)
    except Exception as e:  # noqa
        bad("op_raised", f"an operation raised {type(e).__name__} on a deep / wide trie (scale probe)", exc=repr(e)[:160])
    return viols, evals


def smt_scale(default=b"\x07", writes=400):
    viols, evals = [], 0
    keys = [bytes([k]) for k in (0x00, 0x01, 0x80, 0x81, 0x40, 0xC1, 0xFF, 0x7F)]
    vals = [b"A", b"B", b"same", b"same", b"x" * 40, default, b"C"]
    t = SparseMerkleTree(key_size=1, default=default)
    ref = Smt(1, default)
    m = {}
    for i in range(writes):
        k = keys[(i * 5) % len(keys)]
        v = vals[(i * 3 + i // 8) % len(vals)]
        try:
            if i % 11 == 10:
                ret = t.delete(k)
                m.pop(k, None)
            else:
                ret = t.set(k, v)
                if v == default:
                    m.pop(k, None)
                else:
                    m[k] = v
            evals += 1
            if t.root_hash != ref.root(m) or tuple(ret) != ref.walk(m, k)[1]:
                viols.append(V("C14", "root_wrong", "root / returned hashes wrong in a long history on one tree (scale probe)", step=i))
                break
            for kk in keys:
                if t.get(kk) != ref.val(m, kk) or tuple(t.branch(kk)) != ref.walk(m, kk)[0]:
                    viols.append(V("C14", "read_wrong", "a read is wrong in a long history on one tree (scale probe)", step=i, key=kk))
                    break
            if viols:
                break
        except Exception as e:  # noqa
            viols.append(V("C14", "read_raised", f"a long history on one tree raised {type(e).__name__} at step {i} (scale probe)", step=i, exc=repr(e)[:120]))
            break
    return viols, evals
