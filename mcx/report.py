"""Evidence files, replay artefacts, known-findings handling, exit codes."""
import hashlib
import json
import os
import sys
import time

from .engine import jsonable

ROOT = os.path.dirname(os.path.dirname(os.path.abspath(__file__)))
KNOWN = os.path.join(ROOT, "KNOWN_FINDINGS")
# evidence and replay artefacts go to /verif; MCX_OUT redirects them (only used by the mutant campaign, which runs many
# checks in parallel against scratch copies of the library and must not touch the committed evidence)
OUT = os.environ.get("MCX_OUT") or ROOT


def load_known():
    """-> list of (property, sig dict, text) for 'finding:' lines only ('fixed:' suppress nothing)"""
    out = []
    if not os.path.exists(KNOWN):
        return out
    for line in open(KNOWN):
        line = line.strip()
        if not line.startswith("finding:"):
            continue
        body = line[len("finding:"):].strip()
        head, _, text = body.partition("::")
        parts = head.strip().split(None, 1)
        prop = parts[0].split("=", 1)[1]
        sig = json.loads(parts[1].split("=", 1)[1])
        out.append((prop, sig, text.strip()))
    return out


class Report:
    def __init__(self, prop, tier, seed, level):
        self.prop = prop
        self.tier = tier
        self.seed = seed
        self.level = level
        self.t0 = time.time()
        self.cov = {}
        self.assumptions = []
        self.violations = []  # (viol dict, system description)
        self.nviol = 0
        self.parts = []
        self.samples = []
        self.states = 0
        self.transitions = 0
        self.replayed = 0
        self.evaluations = 0
        self.nontrivial = 0
        self.exhaustive = True
        self.caps = []
        self.rule = ""

    # ---- accumulate
    def add_bfs(self, name, res, sysm=None, keep_samples=2):
        self.states += res.states
        self.transitions += res.transitions
        self.replayed += res.replayed
        part = dict(name=name, states=res.states, transitions=res.transitions, merges=res.merges,
                    levels=res.levels, fixpoint_depth=res.max_depth, exhaustive=res.exhaustive,
                    capped=res.capped, replays_validated=res.replayed, wall_s=round(res.wall, 2),
                    violations=res.nviol)
        if res.stats:
            part["stats"] = {k: res.stats[k] for k in sorted(res.stats)}
        self.parts.append(part)
        if not res.exhaustive:
            self.exhaustive = False
            self.caps.append(f"{name}: {res.capped}")
        for s in res.samples[:keep_samples]:
            self.samples.append(dict(search=name, **s))
        desc = sysm.describe() if sysm is not None else None
        for v in res.violations:
            self.add_violation(v, desc)
        self.nviol += res.nviol - len(res.violations)

    def add_violation(self, v, system=None):
        self.nviol += 1
        if len(self.violations) < 60:
            self.violations.append((v, system))

    def add_part(self, **kw):
        self.parts.append(kw)

    # ---- finish
    def finish(self):
        wall = time.time() - self.t0
        known = load_known()
        fresh, knownhits = [], {}
        for v, system in self.violations:
            prop = v.get("prop", self.prop)
            if prop != self.prop:
                # a check only decides its own property
                prop = self.prop
            hit = None
            for kp, ksig, ktext in known:
                if kp == prop and ksig == v.get("sig"):
                    hit = (kp, json.dumps(ksig, sort_keys=True), ktext)
                    break
            if hit:
                knownhits[hit] = knownhits.get(hit, 0) + 1
            else:
                fresh.append((v, system))
        # one replay artefact per distinct signature (the first = shortest history, BFS order)
        groups = {}
        for v, system in fresh:
            groups.setdefault(json.dumps(v.get("sig"), sort_keys=True), []).append((v, system))
        fresh = [g[0] for g in groups.values()][:12]
        paths = []
        for v, system in fresh:
            paths.append(self._write_replay(v, system))
        cov = dict(self.cov)
        cov.setdefault("exhaustive", bool(self.exhaustive))
        if self.caps:
            cov["caps_hit"] = self.caps
        cov["parts"] = self.parts
        cov["samples"] = self.samples[:8] or [dict(note="no samples recorded")]
        if self.level == "model_checking":
            cov["states"] = self.states
            cov["transitions"] = self.transitions
            cov["traces_validated_against_impl"] = self.replayed
        cov.setdefault("evaluations", self.evaluations or self.transitions)
        cov.setdefault("distinct_nontrivial", self.nontrivial or self.states)
        cov.setdefault("rule", self.rule)
        if knownhits:
            cov["known_findings_hit"] = [dict(property=k[0], sig=json.loads(k[1]), text=k[2], count=n) for k, n in knownhits.items()]
        ev = dict(property_id=self.prop, tier=self.tier, seed=self.seed, level=self.level, coverage=jsonable(cov),
                  assumptions=self.assumptions, wall_s=round(wall, 2), violations=len(fresh) + max(0, self.nviol - len(self.violations)))
        os.makedirs(os.path.join(OUT, "evidence"), exist_ok=True)
        with open(os.path.join(OUT, "evidence", f"{self.prop}.json"), "w") as f:
            json.dump(ev, f, indent=1, sort_keys=True)
            f.write("\n")
        for (kp, ksig, ktext), n in knownhits.items():
            print(f"KNOWN-FINDING: property={kp} {ktext} (sig={ksig}, {n} occurrence(s))")
        for p, (v, _) in zip(paths, fresh):
            print(f"VIOLATION property={self.prop} replay={p}")
            print(f"  check={v.get('check')} sig={json.dumps(v.get('sig'), sort_keys=True)} :: {v.get('msg')}")
        print(f"[{self.prop}] tier={self.tier} seed={self.seed} level={self.level} states={self.states} transitions={self.transitions} "
              f"evaluations={cov['evaluations']} replays={self.replayed} exhaustive={cov['exhaustive']} violations={len(fresh)}"
              f"{'+' if self.nviol > len(self.violations) else ''} wall={wall:.1f}s")
        return 1 if fresh else 0

    def _write_replay(self, v, system):
        doc = dict(property=self.prop, check=v.get("check"), sig=v.get("sig"), msg=v.get("msg"), detail=v.get("detail"),
                   system=system, seed=self.seed, tier=self.tier, history=jsonable(v.get("hist", [])),
                   extra=jsonable(v.get("extra")))
        blob = json.dumps(doc, sort_keys=True, indent=1)
        sha = hashlib.sha256(blob.encode()).hexdigest()[:12]
        d = os.path.join(OUT, "replays", self.prop)
        os.makedirs(d, exist_ok=True)
        path = os.path.join(d, f"{sha}.json")
        with open(path, "w") as f:
            f.write(blob + "\n")
        return path
